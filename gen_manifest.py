#!/usr/bin/env python3
"""Writes MANIFEST.json from the tables below (kept in one place so the file stays valid)."""
import json, os

ROOT = os.path.dirname(os.path.abspath(__file__))

CLAIMED = {
 "C01": dict(engine="reasm-seq", design="§4 C01", technique="deterministic simulation: seeded record-stream fault injection (loss/dup/reorder/delay/restart) over a real Reassembler under a virtual clock, exactly-once/grouping oracle over the recorded history; plus the concurrent/re-entrant engine and the whole-library pipeline (kernel stream -> socket -> Receive -> Push -> Stream) for the delivery verdicts",
   text="Seeded exploration of single-goroutine call histories (PushMessage/Push/Maintain/sleep/Close) with stream faults under a virtual clock; every delivered group is checked against a reference model of what was pushed (exactly once, one sequence per group, push order, no split). Sampling, not proof; millions of distinct histories per quick run.",
   note="Trusts the Go runtime, testing/synctest and the oracle's model of 'buffered instance'. Histories <= ~60 ops, all sequence numbers inside one 2^24 window; 'delivered by the end' is required for what was pushed before Close, everything else is judged for the whole history. 2 of 8 quick workers run the concurrent engine (re-entrant callbacks, ticker), 1 the pipeline."),
 "C02": dict(engine="reasm-seq", design="§4 C02", technique="deterministic simulation: seeded disorder/late-arrival/roll-over histories, ordering oracle using window offsets as ground truth",
   text="Same engine as C01 tilted towards disorder larger than the buffer, late arrivals and windows straddling 2^32; the oracle orders events by the plan's window offsets (never by the library's comparison) and applies the late-arrival exception literally.",
   note="Single goroutine only (as the property states). Sequence numbers of one history lie in one window of span <= 2^24-1."),
 "C03": dict(engine="reasm-seq", design="§4 C03", technique="deterministic simulation: gap/late/duplicate/restart stream faults, running EventsLost sum compared with a gap model after every call",
   text="Per call, the sum of the counts passed to EventsLost is compared with the number of window offsets skipped by the in-order events that call delivered; counts must be positive. Found the uint32 / sequence-0 defect (fixed in /repo).",
   note="Model: 'last' = highest offset delivered so far; late or duplicate deliveries add nothing. Calls after Close are not judged."),
 "C10": dict(engine="reasm-seq", design="§4 C10", technique="deterministic simulation: virtual-time histories with boundary sleeps (timeout-1ns, timeout, timeout+1ns), occupancy and eviction-cause oracle; re-entrant/concurrent engine for the delivery verdicts",
   text="The harness reconstructs the buffered set from pushes and callbacks with exact virtual creation times; after each push the occupancy bound and 'oldest is not complete' are checked, and every delivery outside Close must have a cause (complete, overflow, or elapsed timeout).",
   note="'Complete' = holds a record of type 1327, <1300 or >=2100, or EOE (1320) arrived while buffered. Equality at the exact expiry instant is tolerated both ways."),
 "C19": dict(engine="reasm-seq", design="§4 C19", technique="deterministic simulation: exact virtual clock (testing/synctest), sleep/Maintain/Close histories over all timeout classes, expiry and post-Close oracle, counterfactual re-run with another timeout to decide 'on account of time'; ticker/re-entrant engine for the delivery verdicts",
   text="After every Maintain/PushMessage at virtual time t the oldest buffered event must not be strictly past its expiry; no incomplete event is delivered before its timeout without overflow; Close flushes everything once, in order; Maintain/second Close fail afterwards and deliver nothing; nil Stream is rejected.",
   note="Timeout classes -1s, 0, 1ms, 50ms, 2s, 1h, MaxInt64; time is virtual, so boundary cases are exact. The concurrent ticker variant lives in C11's engine."),
}


CLAIMED.update({
 "C11": dict(engine="reasm-conc", design="§4 C11", technique="deterministic simulation: seeded scheduler releasing one task at a time at yield hooks and at statement-level pre-emption points (AST-instrumented copy of the tree) inside PushMessage/Maintain/Close, inside critical sections and inside callbacks; re-entrant callbacks, deadlock detector, race detector with the scheduler's hand-offs hidden; whole-library pipeline",
   text="2-4 tasks with short Push/Maintain/Close programs (plus a Maintain ticker and callbacks that re-enter the Reassembler) are interleaved by a seeded tape at the Reassembler's internal step boundaries; oracle: no race-detector report with a library frame, no deadlock, at-most-once delivery, exactly-once for every push that returned before the winning Close was invoked, exactly one Close returns nil.",
   note="Interleavings at yield-hook granularity (verif build tag); finer races rely on TSan, which sees every memory access but none of the scheduler's own synchronisation. Deadlocked runs abandon the worker process and are minimised with child processes."),
 "C08": dict(engine="client", design="§4 C08", technique="deterministic simulation: real AuditClient against SimKernel (independent reference model) with injected errnos, unsolicited seq-0 records at every position, EINTR/EAGAIN runs up to 9, delayed and stale replies; per-request ledger oracle",
   text="Every command method is judged against the ledger entry of the request it sent: nil iff the kernel's verdict was 0, otherwise the error identifies the errno (errors.As, strerror text, or AddRule's documented 'rule exists'); GetStatus/GetRules/DeleteRules data equal what the kernel sent. Under the stale-reply fault only 'never report success wrongly' is judged. Found the DeleteRule defect (fixed).",
   note="Kernel always sends the ACK before data. Receive failures are scripted <= 9 in a row (the property's quantifier); reply delays <= 450 ms of virtual time (the 10th poll)."),
 "C16": dict(engine="client", design="§4 C16", technique="deterministic simulation: SimKernel decodes every AUDIT_SET/AUDIT_GET datagram at fixed UAPI offsets with its own constants; reply-size (kernel version), truncation and padding faults; FromWireFormat on poisoned buffers",
   text="Each setter must put exactly one 44-byte AUDIT_SET with flags 0x5, the single UAPI mask bit and value on the wire (failure modes by exported name must arrive as 0/1/2); GetStatus must return the words the kernel laid out for every reply size >= 32, reject shorter ones with io.ErrUnexpectedEOF and never show bytes from outside the datagram. Two open known findings (LogOnFailure/PanicOnFailure are 0).",
   note="No schedule in this property; the simulator contributes the independent peer and the reply-size/truncation fault space. AuditStatusLost, AuditGet, AuditSet are compared statically (no setter exercises them)."),
 "C17": dict(engine="client", design="§4 C17", technique="deterministic simulation: NoWait/WaitForReply histories against SimKernel's ACK ledger with errno, unsolicited-record, EINTR/EAGAIN and sendto-failure faults; repeated and concurrent Close under the seeded scheduler (socket calls and statement-level points are scheduling points), shared poisoned receive buffer",
   text="ACK ledger: every NoWait request's ACK is consumed exactly once, in send order, only by WaitForPendingACKs, which stops at the first kernel error and never polls for ACKs that are not outstanding; the socket is closed exactly once over all sequential and concurrent Close calls, with one AUDIT_SET{PID=0} iff SetPID was used; slices returned by GetRules still equal the kernel's copy at the end of the run. Found the re-wait defect (fixed).",
   note="Waiting calls are only issued when no NoWait ACK is outstanding (documented usage); concurrent phase runs Close only (the client promises nothing else concurrently)."),
 "C18": dict(engine="client", design="§4 C18", technique="deterministic simulation: real NetlinkClient over the verif socket seam, 1-4 sender tasks interleaved at sendto and at statement-level points, porcupine linearizability of the sequence counter, datagrams of every length/sender (foreign port ids incl. >= 2^31, group masks, non-netlink) injected into Receive, two independent clients receiving in different tasks",
   text="Wire bytes of every Send are decoded independently (length, type, flags, port id, sequence == returned value, payload, destination); the Send history of concurrent tasks is checked with porcupine against a counter model and by the race detector; Receive must return kernel datagrams unchanged and reject short, foreign-port and non-netlink ones without data; the audit parser is checked through AuditClient.Receive on both transports.",
   note="Socket creation/bind/port-id discovery and a real kernel are stubs. Payload 0..8970, datagrams 0..64 bytes plus random longer ones."),
 "C15": dict(engine="coalesce-pool", design="§4 C15", technique="deterministic simulation: pool of message groups and previously returned events, 1-3 tasks issuing Coalesce/ResolveIDs/clock-advance operations under the seeded scheduler, pristine-twin and snapshot oracles, race detector",
   text="After every operation each input message must report the same Data/Tags/ToMapStr as a pristine parse of the same line, each coalesce must equal the event obtained in isolation, every earlier event must equal its snapshot, ID resolution must give the isolated outcome whatever the cache state or virtual time, nothing may panic, and tasks working on different groups must not race. Found the cached-map mutation defect (fixed).",
   note="Tasks own disjoint groups/events. os/user answers come from the sandbox's static passwd/group files. Map iteration order inside the library is not controllable (warnings compared as sorted multisets)."),
})

PENDING = {}

NOT_APPLICABLE = {
 "C04": "pure function of the input line (ParseLogLine/Parse/ToMapStr); no schedule, clock, fault or shared state for a simulator to own - needs input enumeration/fuzzing, a different technique",
 "C05": "parser totality over all byte strings is an input-robustness (fuzz/proof) target; the repeat-call clause is sequential and deterministic; nothing to simulate",
 "C06": "rule.Build/flags.Parse are pure encoders; deciding byte-exactness needs an independent decoder over generated inputs, not a simulator",
 "C07": "pure encode/decode round trip; its only I/O (os.Stat, os/user) is excluded by the property's own preconditions",
 "C09": "single-call pure function of one message group (the cross-call behaviour of coalescing is C15, which is claimed)",
 "C12": "pure decoding of one record's text; quantified over inputs only",
 "C13": "no-panic/bounded-allocation over all inputs of pure functions; fuzzing target, not simulation",
 "C14": "pure flag parser; quantified over input lines only",
 "C20": "static tables; exhaustive enumeration, not simulation",
}

def main():
    checks = []
    for pid in sorted(CLAIMED):
        c = CLAIMED[pid]
        checks.append(dict(
            property_id=pid,
            quick_cmd="./check %s quick" % pid,
            thorough_cmd="./check %s thorough" % pid,
            evidence_file="/verif/evidence/%s.json" % pid,
            replay_cmd_template="./check replay {path}",
            engine=c["engine"],
            level_claimed=dict(category="exploration", text=c["text"], design_ref=c["design"]),
            level_note=c["note"],
            technique=c["technique"],
        ))
    na = [dict(property_id=k, reason=v) for k, v in sorted(NOT_APPLICABLE.items())]
    na += [dict(property_id=k, reason=v) for k, v in sorted(PENDING.items())]
    hooks_commits = []
    hc = os.path.join(ROOT, "hook_commits.txt")
    if os.path.exists(hc):
        hooks_commits = [l.split()[0] for l in open(hc) if l.strip()]
    man = dict(
        version=1,
        setup_cmd="./check build",
        hooks=dict(
            guard="verif",
            enable="go1.26.8 test -c -tags verif; the harness module /verif/sim is built against a copy of /repo's current working tree into which sim/cmd/instrument has inserted statement-level verifYield calls (plain /repo if that fails)",
            baseline_off_cmd="cd /repo && GOFLAGS=-mod=mod go test -json -vet=off -count=1 -timeout 25m ./...",
            source_commits=hooks_commits,
            add_only=True,
        ),
        engines=[
            dict(name="reasm-seq", path="/verif/sim/engines/reasm_seq.go", serves_properties=["C01", "C02", "C03", "C10", "C19"],
                 kind_free_text="single driver goroutine, real Reassembler, virtual clock, stream-fault injector, history oracles"),
            dict(name="reasm-conc", path="/verif/sim/engines/reasm_conc.go", serves_properties=["C11", "C01", "C10", "C19"],
                 kind_free_text="2-4 tasks under the seeded scheduler with yield hooks and statement-level points inside the Reassembler, re-entrant callbacks, ticker, race detector with hidden hand-offs (C01/C10/C19: delivery verdicts only)"),
            dict(name="client", path="/verif/sim/engines/client.go", serves_properties=["C08", "C16", "C17", "C18"],
                 kind_free_text="real AuditClient / NetlinkClient against SimKernel (independent UAPI reference model) with errno, unsolicited-event, EINTR/EAGAIN, stale/short/spoofed datagram faults"),
            dict(name="pipeline", path="/verif/sim/engines/pipeline.go", serves_properties=["C01", "C11"],
                 kind_free_text="whole library in one process: SimKernel record stream -> SimSocket -> NetlinkClient/AuditClient.Receive -> Reassembler.Push -> Stream -> CoalesceMessages, with ticker and closer tasks"),
            dict(name="coalesce-pool", path="/verif/sim/engines/coalesce.go", serves_properties=["C15"],
                 kind_free_text="pool of message groups and previously returned events, tasks issuing Coalesce/ResolveIDs, pristine-twin oracle, race detector"),
        ],
        checks=checks,
        not_applicable=na,
        notes="Technique family: deterministic simulation with fault injection. See DESIGN.md. Exit 2 from a check means inconclusive (build/harness trouble), never a violation.",
    )
    with open(os.path.join(ROOT, "MANIFEST.json"), "w") as f:
        json.dump(man, f, indent=1)
        f.write("\n")

if __name__ == "__main__":
    main()
