#!/usr/bin/env python3
"""Self-tests of the simulation framework.

  selftest.py determinism [--seeds N] [--runs N] [PROP ...]
      Every property's engine is run with the same seeds in several fresh
      processes (plain and -race binaries, different GOMAXPROCS in the
      environment, different worker counts running side by side) and the
      per-run event-log hashes are compared line by line.

  selftest.py mutants [--only NAME] [--cross]
      Applies every patch under mutants/ and seeded/*/ to /repo (which must be
      clean), runs the owning property's quick check (must exit 1 with a
      VIOLATION line), optionally every other claimed check (--cross, must exit
      0), and reverts /repo. Prints a catch matrix.

  selftest.py benign [--only NAME]
      Applies every behaviour-preserving refactoring under benign/ to /repo and
      runs the checks of the properties that depend on the touched code; all
      must exit 0.
"""
import glob, json, os, subprocess, sys, time, hashlib

ROOT = os.path.dirname(os.path.abspath(__file__))
BUILD = os.path.join(ROOT, ".build", "selftest")
PROPS = ["C01", "C02", "C03", "C08", "C10", "C11", "C15", "C16", "C17", "C18", "C19"]
GOENV = dict(os.environ, GOFLAGS="-mod=mod", GOPROXY="off", GOSUMDB="off", GOTOOLCHAIN="local")
RACEOPTS = "halt_on_error=0 exitcode=0 suppress_equal_stacks=0 suppress_equal_addresses=0"


def build():
    """Uses the driver's own build step (instrumented copy of the repository's working tree)."""
    global BUILD
    p = subprocess.run([os.path.join(ROOT, "check"), "build"], cwd=ROOT, stdout=subprocess.PIPE, stderr=subprocess.STDOUT, text=True)
    if p.returncode != 0:
        print(p.stdout)
        sys.exit(2)
    BUILD = os.path.join(ROOT, ".build", "warm")


def determinism(argv):
    seeds, runs = 6, 1500
    props = []
    i = 0
    while i < len(argv):
        if argv[i] == "--seeds":
            seeds = int(argv[i + 1]); i += 2
        elif argv[i] == "--runs":
            runs = int(argv[i + 1]); i += 2
        else:
            props.append(argv[i]); i += 1
    props = props or PROPS
    build()
    procs = []
    # variants: (binary, GOMAXPROCS env)
    variants = [("w.test", "1"), ("w.test", "16"), ("w-race.test", "4"), ("w-race.test", "1")]
    for prop in props:
        for seed in range(1, seeds + 1):
            for vi, (binary, gmp) in enumerate(variants):
                out = os.path.join(BUILD, "det-%s-%d-%d" % (prop, seed, vi))
                env = dict(os.environ, VERIF_PROP=prop, VERIF_SEED=str(seed), VERIF_WORKER="0", VERIF_RUNS=str(runs if "race" not in binary else max(50, runs // 5)),
                           VERIF_SECS="100000", VERIF_OUT=out + ".json", VERIF_HASHLOG=out + ".log", VERIF_KNOWN=os.path.join(ROOT, "known_findings.json"),
                           VERIF_REPLAY_DIR=os.path.join(BUILD, "replays"), GOMAXPROCS=gmp, VERIF_STRICT_DETERMINISM="1", GORACE=RACEOPTS + " log_path=" + out + ".race")
                procs.append((prop, seed, vi, out, env, os.path.join(BUILD, binary)))
    running = []
    results = {}
    maxpar = 16
    idx = 0
    while idx < len(procs) or running:
        while idx < len(procs) and len(running) < maxpar:
            prop, seed, vi, out, env, binary = procs[idx]
            p = subprocess.Popen([binary, "-test.run", "^TestWorker$", "-test.cpu", "1", "-test.timeout", "2h"], env=env, stdout=subprocess.DEVNULL, stderr=subprocess.DEVNULL, cwd=BUILD)
            running.append((p, procs[idx]))
            idx += 1
        for item in list(running):
            p, pr = item
            if p.poll() is not None:
                running.remove(item)
                results[(pr[0], pr[1], pr[2])] = p.returncode
        time.sleep(0.05)
    bad = 0
    compared = 0
    for prop in props:
        for seed in range(1, seeds + 1):
            logs = []
            for vi in range(len(variants)):
                path = os.path.join(BUILD, "det-%s-%d-%d.log" % (prop, seed, vi))
                lines = open(path).read().splitlines() if os.path.exists(path) else []
                logs.append(lines)
                rc = results.get((prop, seed, vi))
                if rc != 0:
                    print("NONZERO exit %s for %s seed %d variant %d" % (rc, prop, seed, vi))
                    bad += 1
            base = logs[0]
            for vi, lg in enumerate(logs[1:], 1):
                n = min(len(base), len(lg))
                compared += n
                if n == 0 or base[:n] != lg[:n]:
                    first = next((k for k in range(n) if base[k] != lg[k]), None)
                    print("MISMATCH %s seed %d variant %d at run %s: %s vs %s" % (prop, seed, vi, first, base[first] if first is not None else "-", lg[first] if first is not None else "-"))
                    bad += 1
    print("determinism: %d processes, %d run hashes compared, %d problems" % (len(procs), compared, bad))
    return 1 if bad else 0


def repo_clean():
    return subprocess.run(["git", "-C", "/repo", "status", "--porcelain"], stdout=subprocess.PIPE, text=True).stdout.strip() == ""


def mutants(argv):
    only = None
    cross = "--cross" in argv
    if "--only" in argv:
        only = argv[argv.index("--only") + 1]
    if not repo_clean():
        print("/repo is not clean")
        return 2
    items = []
    for p in sorted(glob.glob(os.path.join(ROOT, "mutants", "*.patch"))):
        owner = os.path.basename(p).split("-")[0].upper()
        items.append((os.path.basename(p), owner, p))
    for d in sorted(glob.glob(os.path.join(ROOT, "seeded", "*"))):
        meta = os.path.join(d, "meta.json")
        patch = os.path.join(d, "patch.diff")
        if os.path.exists(meta) and os.path.exists(patch):
            m = json.load(open(meta))
            if str(m.get("check_result", "")).startswith("missed (out of reach"):
                print("skipped (documented as out of reach): %s" % os.path.basename(d))
                continue
            items.append((os.path.basename(d), m["property"], patch))
    rows = []
    for name, owner, patch in items:
        if only and only not in name:
            continue
        r = subprocess.run(["git", "-C", "/repo", "apply", patch])
        if r.returncode != 0:
            rows.append((name, owner, "patch does not apply", ""))
            continue
        try:
            t0 = time.time()
            p = subprocess.run([os.path.join(ROOT, "check"), owner, "quick"], cwd=ROOT, stdout=subprocess.PIPE, stderr=subprocess.STDOUT, text=True)
            caught = p.returncode == 1 and "VIOLATION property=%s" % owner in p.stdout
            detail = next((l for l in p.stdout.splitlines() if l.startswith("violation:")), "")[:160]
            others = []
            if cross:
                for q in PROPS:
                    if q == owner:
                        continue
                    pq = subprocess.run([os.path.join(ROOT, "check"), q, "quick"], cwd=ROOT, stdout=subprocess.PIPE, stderr=subprocess.STDOUT, text=True)
                    if pq.returncode != 0:
                        others.append("%s:%d" % (q, pq.returncode))
            rows.append((name, owner, "CAUGHT" if caught else "MISSED(exit %d)" % p.returncode, "%.0fs %s %s" % (time.time() - t0, detail, " ".join(others))))
        finally:
            subprocess.run(["git", "-C", "/repo", "checkout", "--", "."])
            subprocess.run(["git", "-C", "/repo", "clean", "-fdq"])
        print(rows[-1], flush=True)
    missed = [r for r in rows if not r[2].startswith("CAUGHT")]
    print("mutants: %d run, %d caught, %d missed" % (len(rows), len(rows) - len(missed), len(missed)))
    return 1 if missed else 0


def benign(argv):
    """Applies every behaviour-preserving refactoring under benign/ to /repo and runs the quick checks of the properties that
    depend on the touched files; each must exit 0 (a VIOLATION here is a false alarm, exit 2 a broken check)."""
    if not repo_clean():
        print("/repo is not clean")
        return 2
    only = argv[argv.index("--only") + 1] if "--only" in argv else None
    groups = {"reassembler.go": ["C01", "C02", "C03", "C10", "C11", "C19"], "audit.go": ["C08", "C16", "C17"], "netlink.go": ["C18", "C08", "C17"],
              "aucoalesce/": ["C15"]}
    rows = []
    for d in sorted(glob.glob(os.path.join(ROOT, "benign", "*-*"))):
        patch = os.path.join(d, "patch.diff")
        if not os.path.exists(patch) or (only and only not in d):
            continue
        text = open(patch).read()
        checks = []
        for key, props in groups.items():
            if ("b/" + key) in text:
                for p in props:
                    if p not in checks:
                        checks.append(p)
        if subprocess.run(["git", "-C", "/repo", "apply", patch]).returncode != 0:
            rows.append((os.path.basename(d), "patch does not apply"))
            continue
        try:
            res = []
            for q in checks:
                pq = subprocess.run([os.path.join(ROOT, "check"), q, "quick"], cwd=ROOT, stdout=subprocess.PIPE, stderr=subprocess.STDOUT, text=True,
                                    env=dict(os.environ, VERIF_SECS_PER_WORKER=os.environ.get("VERIF_SECS_PER_WORKER", "10")))
                res.append("%s:%d" % (q, pq.returncode))
            rows.append((os.path.basename(d), " ".join(res)))
        finally:
            subprocess.run(["git", "-C", "/repo", "checkout", "--", "."])
            subprocess.run(["git", "-C", "/repo", "clean", "-fdq"])
        print(rows[-1], flush=True)
    bad = [r for r in rows if any(not x.endswith(":0") for x in r[1].split())]
    print("benign: %d refactorings, %d with a non-zero check" % (len(rows), len(bad)))
    return 1 if bad else 0


if __name__ == "__main__":
    if len(sys.argv) < 2:
        print(__doc__); sys.exit(2)
    if sys.argv[1] == "determinism":
        sys.exit(determinism(sys.argv[2:]))
    if sys.argv[1] == "mutants":
        sys.exit(mutants(sys.argv[2:]))
    if sys.argv[1] == "benign":
        sys.exit(benign(sys.argv[2:]))
    print(__doc__); sys.exit(2)
