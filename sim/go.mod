module verifsim

go 1.26.8

require (
	github.com/anishathalye/porcupine v1.3.0
	github.com/elastic/go-libaudit/v2 v2.0.0
)

require (
	golang.org/x/sys v0.11.0 // indirect
	gopkg.in/yaml.v3 v3.0.1 // indirect
)

replace github.com/elastic/go-libaudit/v2 => /repo
