package worker

import (
	"os"
	"runtime"
	"testing"

	"verifsim/core"
	"verifsim/engines"
)

func TestMain(m *testing.M) {
	runtime.GOMAXPROCS(1)
	os.Exit(m.Run())
}

// TestWorker is the entry point of a simulation worker process. It is
// configured through VERIF_* environment variables (see core.LoadConfig).
func TestWorker(t *testing.T) {
	cfg := core.LoadConfig()
	if cfg.Property == "" {
		t.Skip("VERIF_PROP not set")
	}
	core.StartWatchdog()
	engines.Dispatch(t, cfg)
}
