// Package core holds the simulator pieces shared by every engine: the seeded
// choice source, the task scheduler, the history recorder, plan shrinking,
// statistics and the worker loop.
package core

import "math/rand/v2"

// SplitMix64 is the mixing function used to derive independent seeds.
func SplitMix64(x uint64) uint64 {
	x += 0x9e3779b97f4a7c15
	x = (x ^ (x >> 30)) * 0xbf58476d1ce4e5b9
	x = (x ^ (x >> 27)) * 0x94d049bb133111eb
	return x ^ (x >> 31)
}

// DeriveSeed mixes a base seed with a list of integers (property number,
// worker number, run index, ...).
func DeriveSeed(base uint64, parts ...uint64) uint64 {
	s := SplitMix64(base)
	for _, p := range parts {
		s = SplitMix64(s ^ SplitMix64(p+0x1234567))
	}
	return s
}

// Rng is the only source of choices for plan generation. Plans are drawn
// completely before a run starts; nothing draws while the system runs.
type Rng struct{ r *rand.Rand }

func NewRng(seed uint64) *Rng {
	return &Rng{r: rand.New(rand.NewPCG(seed, SplitMix64(seed)))}
}

// Intn returns a value in [0,n). n<=0 yields 0.
func (g *Rng) Intn(n int) int {
	if n <= 0 {
		return 0
	}
	return g.r.IntN(n)
}

// Range returns a value in [lo,hi].
func (g *Rng) Range(lo, hi int) int {
	if hi <= lo {
		return lo
	}
	return lo + g.r.IntN(hi-lo+1)
}

func (g *Rng) U32() uint32 { return g.r.Uint32() }
func (g *Rng) U64() uint64 { return g.r.Uint64() }

// Chance is true with probability num/den.
func (g *Rng) Chance(num, den int) bool { return g.r.IntN(den) < num }

func (g *Rng) Bool() bool { return g.r.IntN(2) == 0 }

// Pick returns one of the given values.
func Pick[T any](g *Rng, xs ...T) T { return xs[g.Intn(len(xs))] }

// Weighted returns an index chosen with the given integer weights.
func (g *Rng) Weighted(w ...int) int {
	t := 0
	for _, x := range w {
		t += x
	}
	if t <= 0 {
		return 0
	}
	n := g.r.IntN(t)
	for i, x := range w {
		if n < x {
			return i
		}
		n -= x
	}
	return len(w) - 1
}
