package core

import (
	"encoding/json"
	"reflect"
)

// Plan is a complete, self-contained description of one simulated run:
// configuration, operations per task, fault script and schedule tape. It is
// plain JSON-serialisable data.
type Plan interface {
	// Valid reports whether the plan is inside the generator's domain (the
	// shrinker must not leave the property's quantifier).
	Valid() bool
}

// ClonePlan deep-copies a plan through JSON (plans are plain data).
func ClonePlan[P any](p *P) *P {
	b, err := json.Marshal(p)
	if err != nil {
		panic(err)
	}
	q := new(P)
	if err := json.Unmarshal(b, q); err != nil {
		panic(err)
	}
	return q
}

// Shrink greedily minimises a failing plan. still(p) must return true when the
// candidate still exhibits the same violation signature. budget bounds the
// number of candidate executions. It returns the smallest plan found and the
// number of candidates tried.
func Shrink[P any](p *P, valid func(*P) bool, still func(*P) bool, budget int) (*P, int) {
	best := ClonePlan(p)
	tried := 0
	try := func(c *P) bool {
		if tried >= budget {
			return false
		}
		if !valid(c) {
			return false
		}
		tried++
		if still(c) {
			best = c
			return true
		}
		return false
	}
	for pass := 0; pass < 8 && tried < budget; pass++ {
		improved := false
		// 1. delete chunks from every slice (large chunks first).
		for {
			progress := false
			slices := collect(reflect.ValueOf(best).Elem(), nil, reflect.Slice)
			for _, path := range slices {
				rv := resolve(reflect.ValueOf(best).Elem(), path)
				if !rv.IsValid() || rv.Kind() != reflect.Slice {
					continue
				}
				n := rv.Len()
				for chunk := n; chunk >= 1; chunk /= 2 {
					for start := 0; start+chunk <= n; {
						c := ClonePlan(best)
						sv := resolve(reflect.ValueOf(c).Elem(), path)
						if !sv.IsValid() || sv.Kind() != reflect.Slice || start+chunk > sv.Len() {
							break
						}
						nv := reflect.AppendSlice(sv.Slice(0, start), sv.Slice(start+chunk, sv.Len()))
						sv.Set(nv)
						if try(c) {
							progress = true
							improved = true
							n -= chunk
						} else {
							start += chunk
						}
						if tried >= budget {
							return best, tried
						}
					}
				}
			}
			if !progress {
				break
			}
		}
		// 2. simplify scalars.
		scalars := collect(reflect.ValueOf(best).Elem(), nil, reflect.Int)
		for _, path := range scalars {
			for {
				cur := resolve(reflect.ValueOf(best).Elem(), path)
				if !cur.IsValid() {
					break
				}
				cands := scalarCandidates(cur)
				ok := false
				for _, cand := range cands {
					c := ClonePlan(best)
					cv := resolve(reflect.ValueOf(c).Elem(), path)
					if !cv.IsValid() {
						break
					}
					setScalar(cv, cand)
					if try(c) {
						ok = true
						improved = true
						break
					}
					if tried >= budget {
						return best, tried
					}
				}
				if !ok {
					break
				}
			}
		}
		if !improved {
			break
		}
	}
	return best, tried
}

// collect returns the paths of all slices (kind==Slice) or all scalar leaves
// (kind==Int stands for every integer/bool kind) below v.
func collect(v reflect.Value, path []int, kind reflect.Kind) [][]int {
	var out [][]int
	switch v.Kind() {
	case reflect.Struct:
		for i := 0; i < v.NumField(); i++ {
			if !v.Type().Field(i).IsExported() {
				continue
			}
			if v.Type().Field(i).Tag.Get("shrink") == "-" {
				continue
			}
			out = append(out, collect(v.Field(i), append(append([]int{}, path...), i), kind)...)
		}
	case reflect.Slice:
		if kind == reflect.Slice {
			out = append(out, append([]int{}, path...))
		}
		for i := 0; i < v.Len(); i++ {
			out = append(out, collect(v.Index(i), append(append([]int{}, path...), i), kind)...)
		}
	case reflect.Bool, reflect.Int, reflect.Int8, reflect.Int16, reflect.Int32, reflect.Int64,
		reflect.Uint, reflect.Uint8, reflect.Uint16, reflect.Uint32, reflect.Uint64:
		if kind == reflect.Int {
			out = append(out, append([]int{}, path...))
		}
	}
	return out
}

func resolve(v reflect.Value, path []int) reflect.Value {
	for _, i := range path {
		switch v.Kind() {
		case reflect.Struct:
			v = v.Field(i)
		case reflect.Slice:
			if i >= v.Len() {
				return reflect.Value{}
			}
			v = v.Index(i)
		}
	}
	return v
}

func scalarCandidates(v reflect.Value) []int64 {
	if !v.IsValid() {
		return nil
	}
	switch v.Kind() {
	case reflect.Bool:
		if v.Bool() {
			return []int64{0}
		}
		return nil
	case reflect.Int, reflect.Int8, reflect.Int16, reflect.Int32, reflect.Int64:
		x := v.Int()
		if x == 0 {
			return nil
		}
		c := []int64{0}
		if x/2 != 0 {
			c = append(c, x/2)
		}
		if x > 0 {
			c = append(c, x-1)
		} else {
			c = append(c, x+1)
		}
		return dedup(c, x)
	default:
		x := v.Uint()
		if x == 0 {
			return nil
		}
		c := []int64{0}
		if x/2 != 0 {
			c = append(c, int64(x/2))
		}
		c = append(c, int64(x-1))
		return dedup(c, int64(x))
	}
}

func dedup(c []int64, cur int64) []int64 {
	var out []int64
	seen := map[int64]bool{cur: true}
	for _, x := range c {
		if !seen[x] {
			seen[x] = true
			out = append(out, x)
		}
	}
	return out
}

func setScalar(v reflect.Value, x int64) {
	switch v.Kind() {
	case reflect.Bool:
		v.SetBool(x != 0)
	case reflect.Int, reflect.Int8, reflect.Int16, reflect.Int32, reflect.Int64:
		v.SetInt(x)
	default:
		v.SetUint(uint64(x))
	}
}
