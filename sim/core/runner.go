package core

import (
	"encoding/json"
	"errors"
	"fmt"
	"os"
	"os/exec"
	"os/signal"
	"path/filepath"
	"runtime"
	"runtime/debug"
	"sort"
	"strconv"
	"strings"
	"sync/atomic"
	"syscall"
	"testing"
	"testing/synctest"
	"time"
)

// Exit codes of a worker process (the driver maps them to the check's 0/1/2).
const (
	ExitOK        = 0
	ExitViolation = 4 // violation found; replay file written
	ExitDeadlock  = 3 // a run deadlocked; plan written, process abandoned
	ExitInternal  = 2 // harness trouble, nondeterminism, watchdog
	// replay only: the plan violates the property, but with another signature
	ExitOtherViolation = 5
)

// Engine describes one scenario family for one property.
type Engine[P any] struct {
	Property string
	Name     string
	// Gen draws a complete plan. Nothing is drawn later.
	Gen func(r *Rng) *P
	// GenFirst, when set, draws the plan of run 0 of a worker process: a shape
	// that makes whatever the library initialises on first use be initialised
	// by concurrent tasks.
	GenFirst func(r *Rng) *P
	// Valid keeps shrinking inside the property's domain.
	Valid func(*P) bool
	// Exec interprets the plan. It is called inside a fresh synctest bubble.
	Exec func(p *P, trace bool) *Result
	// ProbeNames / FaultNames label Result.Probes / Result.Faults.
	ProbeNames []string
	FaultNames []string
	// NontrivialRule describes Result.Nontrivial for the evidence file.
	NontrivialRule string
	Components     map[string][]string
	// NeedsBubbleExit is false for engines whose deadlocked runs cannot leave
	// the bubble (they exit the process instead).
	Assumptions []string
	// RaceIsViolation: a race-detector report with a frame of the library is
	// a violation of this property (kind data-race).
	RaceIsViolation bool
	// Relevant filters the probe / fault tables of an engine that serves
	// several properties down to the counters that can be non-zero in this
	// property's scenario (nil: all).
	Relevant func(name string) bool
	// Outside, when set, is asked first: plans that are not executed in this
	// process at all (they compare fresh child processes) return a result here;
	// nil means "execute in a bubble as usual".
	Outside func(p *P, trace bool) *Result
	// ChildEval is what such a child process computes for a plan (mode
	// "childeval": plan in, bytes out, nothing else).
	ChildEval func(p *P) []byte
}

// KnownFinding is one entry of /verif/known_findings.json.
type KnownFinding struct {
	Property  string `json:"property"`
	Status    string `json:"status"` // open | fixed
	Signature struct {
		Kind  string `json:"kind"`
		Class string `json:"class"`
	} `json:"signature"`
	What   string `json:"what"`
	Commit string `json:"commit,omitempty"`
}

// Replay is the self-contained replay file.
type Replay struct {
	Property  string          `json:"property"`
	Engine    string          `json:"engine"`
	VerifSeed uint64          `json:"verif_seed"`
	Worker    int             `json:"worker"`
	Run       int             `json:"run"`
	PlanSeed  uint64          `json:"plan_seed"`
	Plan      json.RawMessage `json:"plan"`
	Violation Violation       `json:"violation"`
	TraceHash string          `json:"trace_hash"`
	Shrunk    int             `json:"shrink_candidates_tried"`
	// Attempts > 1: the library's own behaviour on this plan is not
	// deterministic (for example it depends on Go map iteration order); the
	// violation was reproduced in ReproRate of the re-executions and a replay
	// may need up to Attempts executions to show it again.
	// Prefix replay: the violation only shows after the runs 0..Run of this
	// worker seed were executed in one process (the library keeps state
	// across runs). Replaying means re-executing that whole prefix.
	// FreshOnly: the violation did not show again inside the worker that found
	// it (it depends on something that happens once per process, such as lazy
	// initialisation); the plan is as generated and is minimised by the driver
	// with one fresh process per candidate.
	FreshOnly bool     `json:"fresh_process_only,omitempty"`
	Prefix    bool     `json:"prefix_replay,omitempty"`
	Tier      string   `json:"tier,omitempty"`
	Race      bool     `json:"race_binary,omitempty"`
	EngineEnv string   `json:"engine_env,omitempty"`
	Attempts  int      `json:"replay_attempts,omitempty"`
	ReproRate string   `json:"reproduction_rate,omitempty"`
	Trace     []string `json:"trace,omitempty"`
}

// WorkerStats is written by every worker and merged by the driver.
type WorkerStats struct {
	Property      string              `json:"property"`
	Engine        string              `json:"engine"`
	Worker        int                 `json:"worker"`
	Race          bool                `json:"race"`
	WorkerSeed    uint64              `json:"worker_seed"`
	Runs          int                 `json:"runs"`
	Nontrivial    int                 `json:"nontrivial_runs"`
	DistinctExact int                 `json:"distinct_nontrivial_exact"`
	DistinctSat   bool                `json:"distinct_saturated"`
	HLL           string              `json:"hll"`
	DistinctSched int                 `json:"distinct_schedules"`
	SchedHLL      string              `json:"sched_hll"`
	AbstractSt    int                 `json:"abstract_states"`
	AbsHLL        string              `json:"abs_hll"`
	Probes        map[string]int      `json:"probes"`
	Faults        map[string]int      `json:"faults_fired"`
	SimNs         int64               `json:"sim_ns"`
	Steps         int64               `json:"steps"`
	Ops           int64               `json:"ops"`
	Rechecks      int                 `json:"determinism_rechecks"`
	RecheckFail   int                 `json:"determinism_mismatches"`
	KnownHits     map[string]int      `json:"known_findings_hit"`
	KnownWhat     map[string]string   `json:"known_findings_what"`
	Violations    int                 `json:"violations"`
	ReplayPath    string              `json:"replay_path,omitempty"`
	ViolationSig  string              `json:"violation_sig,omitempty"`
	ViolationMsg  string              `json:"violation_detail,omitempty"`
	WallS         float64             `json:"wall_s"`
	Samples       []json.RawMessage   `json:"samples"`
	Note          string              `json:"note,omitempty"`
	Recycle       bool                `json:"recycle,omitempty"` // ended early to give memory back; the driver starts a successor
	HarnessRaces  int                 `json:"harness_race_reports"`
	OtherRaces    int                 `json:"library_race_reports_not_judged"`
	Rule          string              `json:"rule"`
	Components    map[string][]string `json:"components"`
	Assumptions   []string            `json:"assumptions"`
}

type Config struct {
	Property     string
	Tier         string
	Seed         uint64
	Worker       int
	MaxRuns      int
	MaxSecs      float64
	Out          string
	Mode         string // search | replay | shrinkchild | trace
	ReplayPath   string
	KnownPath    string
	ReplayDir    string
	ShrinkBudget int
}

// rssMB is the resident set size of this process in MB (0 when unknown).
func rssMB() int {
	b, err := os.ReadFile("/proc/self/statm")
	if err != nil {
		return 0
	}
	f := strings.Fields(string(b))
	if len(f) < 2 {
		return 0
	}
	pages, _ := strconv.Atoi(f[1])
	return pages * os.Getpagesize() >> 20
}

func envInt(k string, def int) int {
	if v := os.Getenv(k); v != "" {
		if n, err := strconv.Atoi(v); err == nil {
			return n
		}
	}
	return def
}

func LoadConfig() Config {
	seed, _ := strconv.ParseUint(os.Getenv("VERIF_SEED"), 10, 64)
	if os.Getenv("VERIF_SEED") == "" {
		seed = 1
	}
	secs, _ := strconv.ParseFloat(os.Getenv("VERIF_SECS"), 64)
	if secs == 0 {
		secs = 10
	}
	c := Config{
		Property:     os.Getenv("VERIF_PROP"),
		Tier:         os.Getenv("VERIF_TIER"),
		Seed:         seed,
		Worker:       envInt("VERIF_WORKER", 0),
		MaxRuns:      envInt("VERIF_RUNS", 1<<62),
		MaxSecs:      secs,
		Out:          os.Getenv("VERIF_OUT"),
		Mode:         os.Getenv("VERIF_MODE"),
		ReplayPath:   os.Getenv("VERIF_REPLAY"),
		KnownPath:    os.Getenv("VERIF_KNOWN"),
		ReplayDir:    os.Getenv("VERIF_REPLAY_DIR"),
		ShrinkBudget: envInt("VERIF_SHRINK", 3000),
	}
	if c.Mode == "" {
		c.Mode = "search"
	}
	if c.ReplayDir == "" {
		c.ReplayDir = "/verif/replays"
	}
	return c
}

func loadKnown(path, prop string) []KnownFinding {
	if path == "" {
		return nil
	}
	b, err := os.ReadFile(path)
	if err != nil {
		return nil
	}
	var all []KnownFinding
	if err := json.Unmarshal(b, &all); err != nil {
		fmt.Fprintf(os.Stderr, "SIM-FATAL known findings file unreadable: %v\n", err)
		os.Exit(ExitInternal)
	}
	var out []KnownFinding
	for _, k := range all {
		if k.Property == prop && k.Status == "open" {
			out = append(out, k)
		}
	}
	return out
}

func matchKnown(known []KnownFinding, v *Violation) *KnownFinding {
	for i := range known {
		k := &known[i]
		if k.Signature.Kind == v.Kind && (k.Signature.Class == v.Class || k.Signature.Class == "*") {
			return k
		}
	}
	return nil
}

// InBubble runs f inside a fresh synctest bubble (virtual clock starting at
// 2000-01-01, advanced only when every goroutine is durably blocked).
//
// The bubble is entered from a helper goroutine: when the race detector
// reported something during the bubble, synctest.Test ends with t.FailNow
// (runtime.Goexit), which must not unwind the worker loop.
func InBubble(t *testing.T, f func()) {
	done := make(chan struct{})
	go func() {
		defer close(done)
		synctest.Test(t, func(*testing.T) { f() })
	}()
	<-done
}

// DeadlockFile is where a worker leaves the plan of a run that deadlocked
// before abandoning the process.
func DeadlockFile(out string) string { return out + ".deadlock.json" }

// currentPlan is the plan being executed; engines call AbandonDeadlock with
// their verdict when the bubble cannot be left.
var currentPlanJSON []byte
var currentCfg Config
var currentEngine string

// AbandonDeadlock records the in-flight plan with a deadlock violation and
// exits the process: a bubble that contains a goroutine blocked on a mutex
// can never be left.
func AbandonDeadlock(v Violation, trace []string) {
	rp := Replay{Property: v.Property, Engine: currentEngine, VerifSeed: currentCfg.Seed, Worker: currentCfg.Worker,
		Plan: currentPlanJSON, Violation: v, Trace: trace}
	b, _ := json.MarshalIndent(rp, "", " ")
	if currentCfg.Out != "" {
		os.WriteFile(DeadlockFile(currentCfg.Out), b, 0o644)
	}
	if currentCfg.Mode == "trace" {
		fmt.Println(string(b))
	}
	if flushStats != nil {
		flushStats()
	}
	os.Exit(ExitDeadlock)
}

var flushStats func()

// Thorough is set for the thorough tier: generators draw larger plans.
var Thorough bool

// Scale returns n in the quick tier and about twice (big = true: three times) n in the thorough tier.
func Scale(n int, big bool) int {
	if !Thorough {
		return n
	}
	if big {
		return 3 * n
	}
	return 2 * n
}

// AbandonInternal gives up the process with the internal-error code.
func AbandonInternal(msg string) {
	fmt.Fprintf(os.Stderr, "SIM-FATAL %s; plan=%s\n", msg, currentPlanJSON)
	if flushStats != nil {
		flushStats()
	}
	os.Exit(ExitInternal)
}

var runsDone atomic.Uint64
var harnessRaces, otherRaces int

func firstLines(s string, n int) string {
	l := strings.Split(strings.TrimSpace(s), "\n")
	if len(l) > n {
		l = l[:n]
	}
	return strings.Join(l, "\n")
}

// RunWorker is the worker main loop for one engine.
func RunWorker[P any](t *testing.T, cfg Config, eng *Engine[P]) {
	currentCfg = cfg
	Thorough = cfg.Tier == "thorough" && cfg.Mode == "search"
	currentEngine = eng.Name
	known := loadKnown(cfg.KnownPath, eng.Property)
	exec := func(p *P, trace bool) *Result {
		currentPlanJSON, _ = json.Marshal(p)
		var res *Result
		if eng.Outside != nil {
			if res = eng.Outside(p, trace); res != nil {
				runsDone.Add(1)
				return res
			}
		}
		InBubble(t, func() { res = eng.Exec(p, trace) })
		runsDone.Add(1)
		for _, rr := range NewRaceReports() {
			if rr.Harness {
				harnessRaces++
				fmt.Fprintf(os.Stderr, "SIM-HARNESS-RACE\n%s\n", rr.Text)
				continue
			}
			if eng.RaceIsViolation {
				res.Add(eng.Property, "data-race", rr.Class(), "race detector report involving "+rr.Class()+":\n"+firstLines(rr.Text, 40))
				if trace {
					res.Trace = append(res.Trace, strings.Split(rr.Text, "\n")...)
				}
			} else {
				otherRaces++
			}
		}
		return res
	}
	switch cfg.Mode {
	case "childeval":
		// a fresh process that evaluates one plan and writes what it computed
		b, err := os.ReadFile(cfg.ReplayPath)
		p := new(P)
		if err != nil || json.Unmarshal(b, p) != nil || eng.ChildEval == nil {
			os.Exit(ExitInternal)
		}
		if os.WriteFile(cfg.Out, eng.ChildEval(p), 0o644) != nil {
			os.Exit(ExitInternal)
		}
		os.Exit(ExitOK)
	case "prefix":
		// re-execute the runs 0..Run of a worker seed in this fresh process
		b, err := os.ReadFile(cfg.ReplayPath)
		if err != nil {
			os.Exit(ExitInternal)
		}
		var rp Replay
		if json.Unmarshal(b, &rp) != nil {
			os.Exit(ExitInternal)
		}
		Thorough = rp.Tier == "thorough"
		wseed := DeriveSeed(rp.VerifSeed, propNum(eng.Property), uint64(rp.Worker))
		want := rp.Violation.Sig()
		for i := 0; i <= rp.Run; i++ {
			plan := genRun(eng, DeriveSeed(wseed, uint64(i)), i)
			res := exec(plan, i == rp.Run)
			if i%64 == 5 {
				exec(plan, false) // the search re-executed these plans too
			}
			for _, v := range res.Violations {
				if v.Sig() == want && i >= rp.Run-0 {
					fmt.Printf("REPLAY-REPRODUCED %s after the %d runs of worker seed (%d, worker %d): %s\n", v.Sig(), i+1, rp.VerifSeed, rp.Worker, firstLines(v.Detail, 12))
					if cfg.Mode == "prefix" && os.Getenv("VERIF_TRACE") != "" {
						fmt.Println(strings.Join(res.Trace, "\n"))
					}
					os.Exit(ExitViolation)
				}
			}
		}
		fmt.Println("REPLAY-PASS")
		os.Exit(ExitOK)
	case "genplan":
		// write the plan of run VERIF_RUNIDX as a replay file (debugging aid)
		wseed := DeriveSeed(cfg.Seed, propNum(eng.Property), uint64(cfg.Worker))
		i := envInt("VERIF_RUNIDX", 0)
		plan := genRun(eng, DeriveSeed(wseed, uint64(i)), i)
		pb, _ := json.Marshal(plan)
		rp := Replay{Property: eng.Property, Engine: eng.Name, VerifSeed: cfg.Seed, Worker: cfg.Worker, Run: i, Plan: pb}
		b, _ := json.MarshalIndent(rp, "", " ")
		os.WriteFile(cfg.Out, b, 0o644)
		return
	case "stress":
		// execute one plan many times in this process and report every distinct trace
		b, _ := os.ReadFile(cfg.ReplayPath)
		var rp Replay
		json.Unmarshal(b, &rp)
		p := new(P)
		json.Unmarshal(rp.Plan, p)
		seen := map[uint64]int{}
		n := envInt("VERIF_RUNS", 1000)
		for i := 0; i < n; i++ {
			res := exec(p, true)
			seen[res.TraceHash]++
			if seen[res.TraceHash] == 1 {
				fmt.Printf("---- new trace %016x at iteration %d\n%s\n", res.TraceHash, i, strings.Join(res.Trace, "\n"))
			}
		}
		fmt.Printf("distinct traces: %v goroutines=%d\n", seen, runtime.NumGoroutine())
		return
	case "replay", "trace":
		replayMode(cfg, eng, exec, known)
		return
	case "shrinkchild":
		shrinkChildMode(cfg, eng)
		return
	}

	start := time.Now()
	wseed := DeriveSeed(cfg.Seed, propNum(eng.Property), uint64(cfg.Worker))
	st := &WorkerStats{Property: eng.Property, Engine: eng.Name, Worker: cfg.Worker, Race: RaceBuild, WorkerSeed: wseed,
		Probes: map[string]int{}, Faults: map[string]int{}, KnownHits: map[string]int{}, KnownWhat: map[string]string{},
		Rule: eng.NontrivialRule, Components: eng.Components, Assumptions: eng.Assumptions}
	probes := make([]int, len(eng.ProbeNames))
	faults := make([]int, len(eng.FaultNames))
	// exact sets are capped (a large heap keeps the garbage collector busy,
	// which perturbs the spin-based settling of the scheduler); beyond the cap
	// the HyperLogLog sketch carries the count
	dist := NewDistinct(1 << 18)
	sched := NewDistinct(1 << 17)
	abs := NewDistinct(1 << 16)
	debug.SetGCPercent(400)
	if RaceBuild {
		debug.SetGCPercent(150) // (the detector's shadow memory follows the peak of the heap and stays)
	}
	write := func() {
		for i, n := range eng.ProbeNames {
			if eng.Relevant == nil || eng.Relevant(n) || probes[i] != 0 {
				st.Probes[n] = probes[i]
			}
		}
		for i, n := range eng.FaultNames {
			if eng.Relevant == nil || eng.Relevant(n) || faults[i] != 0 {
				st.Faults[n] = faults[i]
			}
		}
		st.DistinctExact = dist.Exact()
		st.DistinctSat = dist.Sat
		st.HLL = dist.Sk.Encode()
		st.DistinctSched = sched.Exact()
		st.SchedHLL = sched.Sk.Encode()
		st.AbstractSt = abs.Exact()
		st.AbsHLL = abs.Sk.Encode()
		st.WallS = time.Since(start).Seconds()
		st.HarnessRaces = harnessRaces
		st.OtherRaces = otherRaces
		if cfg.Out != "" {
			b, _ := json.Marshal(st)
			os.WriteFile(cfg.Out, b, 0o644)
		}
	}
	flushStats = write
	defer func() { flushStats = nil }()
	stop := make(chan os.Signal, 1)
	signal.Notify(stop, syscall.SIGTERM, syscall.SIGINT)

	var hashLog *os.File
	if hl := os.Getenv("VERIF_HASHLOG"); hl != "" {
		hashLog, _ = os.Create(hl)
		defer hashLog.Close()
	}
	for i := 0; i < cfg.MaxRuns; i++ {
		if i%16 == 0 && time.Since(start).Seconds() > cfg.MaxSecs {
			break
		}
		if i%64 == 63 && rssMB() > envInt("VERIF_MAX_RSS_MB", 2000) {
			// The race detector keeps per-goroutine state of the thousands of
			// short-lived goroutines a worker creates and does not give it back;
			// the driver starts a successor with a fresh process (and another
			// PRNG value) for the time that is left.
			st.Recycle = true
			st.Note = fmt.Sprintf("process recycled after %d runs at %d MB resident", i+1, rssMB())
			break
		}
		select {
		case <-stop:
			st.Note = "stopped by driver"
			write()
			os.Exit(ExitOK)
		default:
		}
		pseed := DeriveSeed(wseed, uint64(i))
		plan := genRun(eng, pseed, i)
		res := exec(plan, false)
		st.Runs++
		if hashLog != nil {
			if res.Long {
				fmt.Fprintf(hashLog, "%d LONG %d\n", i, len(res.Violations))
			} else {
				fmt.Fprintf(hashLog, "%d %016x %016x %d\n", i, res.TraceHash, res.SchedHash, len(res.Violations))
			}
		}
		st.SimNs += res.SimNs
		st.Steps += int64(res.Steps)
		st.Ops += int64(res.Ops)
		for j, v := range res.Probes {
			probes[j] += v
		}
		for j, v := range res.Faults {
			faults[j] += v
		}
		if res.Nontrivial {
			st.Nontrivial++
			dist.Add(res.TraceHash)
		}
		if res.SchedHash != 0 {
			sched.Add(res.SchedHash)
		}
		for _, a := range res.Abstract {
			abs.Add(a)
		}
		if len(st.Samples) < 3 && res.Nontrivial && (i%7 == 3 || i > 50) {
			b, _ := json.Marshal(plan)
			st.Samples = append(st.Samples, b)
		}
		// determinism re-check: every 64th plan is executed again.
		if i%64 == 5 {
			res2 := exec(plan, false)
			st.Rechecks++
			unknown := func(rr *Result) bool {
				for k := range rr.Violations {
					if rr.Violations[k].Property == eng.Property && matchKnown(known, &rr.Violations[k]) == nil {
						return true
					}
				}
				return false
			}
			if res2.TraceHash != res.TraceHash && (unknown(res) || unknown(res2)) {
				// the two executions differ and at least one violates the
				// property: judge the violating one (the library itself may
				// behave nondeterministically on this plan)
				if !unknown(res) {
					res = res2
				}
			} else if res2.TraceHash != res.TraceHash {
				// Same plan, different history, no violation in either. On the
				// unchanged tree this does not happen (selftest.py determinism
				// runs with VERIF_STRICT_DETERMINISM=1 and fails on it); a
				// changed library may itself behave nondeterministically
				// (sync.Pool, map iteration), which affects replayability, not
				// the verdicts. Counted and reported in the evidence.
				st.RecheckFail++
				if st.Note == "" {
					b, _ := json.Marshal(plan)
					st.Note = fmt.Sprintf("nondeterministic re-execution of plan %s: %x vs %x", firstLines(string(b), 3), res.TraceHash, res2.TraceHash)
				}
				if os.Getenv("VERIF_STRICT_DETERMINISM") != "" {
					write()
					fmt.Fprintf(os.Stderr, "SIM-FATAL %s\n", st.Note)
					os.Exit(ExitInternal)
				}
			}
		}
		// violations of the property under check
		var hit *Violation
		for k := range res.Violations {
			v := &res.Violations[k]
			if v.Property != eng.Property {
				continue
			}
			if kf := matchKnown(known, v); kf != nil {
				st.KnownHits[v.Kind+"/"+v.Class]++
				st.KnownWhat[v.Kind+"/"+v.Class] = kf.What
				continue
			}
			hit = v
			break
		}
		if hit == nil {
			continue
		}
		// minimise while the same signature persists
		sig := hit.Sig()
		failsOnce := func(c *P, trace bool) (*Result, *Violation) {
			r := exec(c, trace)
			for k := range r.Violations {
				if r.Violations[k].Sig() == sig {
					return r, &r.Violations[k]
				}
			}
			return r, nil
		}
		// how reliably does the original plan reproduce?
		repro := 0
		for k := 0; k < 6; k++ {
			if _, v := failsOnce(plan, false); v != nil {
				repro++
			}
		}
		tries := 1
		if repro < 6 {
			tries = 4
		}
		still := func(c *P) bool {
			for k := 0; k < tries; k++ {
				if _, v := failsOnce(c, false); v != nil {
					return true
				}
			}
			return false
		}
		valid := eng.Valid
		if valid == nil {
			valid = func(*P) bool { return true }
		}
		min, tried := plan, 0
		var final *Result
		var fv *Violation
		fails, execs := 0, 0
		if repro == 0 {
			// not reproducible inside this process at all
			final, fv = res, hit
			fails, execs = 1, 1
		} else {
			min, tried = Shrink(plan, valid, still, cfg.ShrinkBudget)
		}
		for k := 0; repro > 0 && k < 40 && (fv == nil || execs < 10); k++ {
			rr, v := failsOnce(min, true)
			execs++
			if v != nil {
				fails++
				if fv == nil {
					final, fv = rr, v
				}
			}
		}
		if fv == nil {
			// The minimised plan does not fail any more when it is executed again:
			// the library behaves nondeterministically by itself (sync.Pool, the
			// garbage collector, map iteration). Report the plan as generated with
			// the violation as it was observed; the driver confirms it in fresh
			// processes (several attempts, then the whole prefix of runs).
			st.Note = "minimised plan no longer fails when re-executed; reporting the plan as generated"
			min, tried = plan, 0
			final, fv = res, hit
			fails, execs = 1, 40
		}
		pb, _ := json.Marshal(min)
		rp := Replay{Property: eng.Property, Engine: eng.Name, VerifSeed: cfg.Seed, Worker: cfg.Worker, Run: i, PlanSeed: pseed,
			Plan: pb, Violation: *fv, TraceHash: fmt.Sprintf("%016x", final.TraceHash), Shrunk: tried, Trace: final.Trace}
		if repro == 0 {
			rp.FreshOnly = true
			rp.TraceHash = ""
		}
		if fails < execs {
			rp.Attempts = 60 * execs / fails
			if rp.Attempts > 2000 {
				rp.Attempts = 2000
			}
			rp.ReproRate = fmt.Sprintf("%d of %d re-executions", fails, execs)
			rp.TraceHash = ""
		}
		os.MkdirAll(cfg.ReplayDir, 0o755)
		path := filepath.Join(cfg.ReplayDir, fmt.Sprintf("%s-seed%d-w%d-%016x.json", eng.Property, cfg.Seed, cfg.Worker, final.TraceHash))
		b, _ := json.MarshalIndent(rp, "", " ")
		os.WriteFile(path, b, 0o644)
		// the plan as generated, for the driver's fall-back: if the minimised
		// plan does not fail in a fresh process (the library may keep state
		// across runs inside this worker), the original one is tried and
		// minimised with one child process per candidate
		ob, _ := json.Marshal(plan)
		orp := rp
		orp.Plan, orp.TraceHash, orp.Trace, orp.Shrunk = ob, "", nil, 0
		orp.Tier, orp.Race, orp.EngineEnv = cfg.Tier, RaceBuild, os.Getenv("VERIF_ENGINE")
		if orp.Attempts < 4 {
			orp.Attempts = 4
		}
		obb, _ := json.MarshalIndent(orp, "", " ")
		os.WriteFile(path+".orig", obb, 0o644)
		st.Violations++
		st.ReplayPath = path
		st.ViolationSig = sig
		st.ViolationMsg = fv.Detail
		write()
		os.Exit(ExitViolation)
	}
	write()
}

func genRun[P any](eng *Engine[P], pseed uint64, i int) *P {
	if i == 0 && eng.GenFirst != nil {
		return eng.GenFirst(NewRng(pseed))
	}
	return eng.Gen(NewRng(pseed))
}

func propNum(p string) uint64 {
	n, _ := strconv.Atoi(p[1:])
	return uint64(n)
}

// replayMode re-executes a replay file in a fresh process. Exit 4 when the
// recorded violation reproduces (same signature, same trace hash), 0 when the
// plan passes, 2 when the behaviour is nondeterministic.
func replayMode[P any](cfg Config, eng *Engine[P], exec func(*P, bool) *Result, known []KnownFinding) {
	b, err := os.ReadFile(cfg.ReplayPath)
	if err != nil {
		fmt.Fprintf(os.Stderr, "SIM-FATAL cannot read replay: %v\n", err)
		os.Exit(ExitInternal)
	}
	var rp Replay
	if err := json.Unmarshal(b, &rp); err != nil {
		fmt.Fprintf(os.Stderr, "SIM-FATAL bad replay file: %v\n", err)
		os.Exit(ExitInternal)
	}
	p := new(P)
	if err := json.Unmarshal(rp.Plan, p); err != nil {
		fmt.Fprintf(os.Stderr, "SIM-FATAL bad plan: %v\n", err)
		os.Exit(ExitInternal)
	}
	res := exec(p, true)
	want0 := rp.Violation.Sig()
	for k := 1; k < rp.Attempts; k++ {
		hit := false
		for _, v := range res.Violations {
			if v.Sig() == want0 {
				hit = true
			}
		}
		if hit {
			fmt.Printf("REPLAY-NOTE reproduced at attempt %d of at most %d (recorded rate: %s)\n", k, rp.Attempts, rp.ReproRate)
			break
		}
		res = exec(p, true)
	}
	out := map[string]any{"trace_hash": fmt.Sprintf("%016x", res.TraceHash), "violations": res.Violations, "trace": res.Trace}
	ob, _ := json.MarshalIndent(out, "", " ")
	if cfg.Out != "" {
		os.WriteFile(cfg.Out, ob, 0o644)
	}
	if cfg.Mode == "trace" {
		fmt.Println(string(ob))
	}
	want := rp.Violation.Sig()
	for _, v := range res.Violations {
		if v.Sig() == want {
			if rp.TraceHash != "" && rp.TraceHash != fmt.Sprintf("%016x", res.TraceHash) {
				// the same violation in a fresh process is conclusive; the
				// history differs in detail (noted, not fatal)
				fmt.Printf("REPLAY-NOTE violation reproduced, trace hash differs (%s vs %016x)\n", rp.TraceHash, res.TraceHash)
			}
			fmt.Printf("REPLAY-REPRODUCED %s: %s\n", v.Sig(), firstLines(v.Detail, 12))
			os.Exit(ExitViolation)
		}
	}
	for _, v := range res.Violations {
		if v.Property == eng.Property && matchKnown(known, &v) == nil {
			fmt.Printf("REPLAY-OTHER %s: %s\n", v.Sig(), firstLines(v.Detail, 12))
			os.Exit(ExitOtherViolation)
		}
	}
	fmt.Println("REPLAY-PASS")
	os.Exit(ExitOK)
}

// shrinkChildMode minimises a plan whose failure kills the process
// (deadlock): every candidate is executed in a child process.
func shrinkChildMode[P any](cfg Config, eng *Engine[P]) {
	b, err := os.ReadFile(cfg.ReplayPath)
	if err != nil {
		os.Exit(ExitInternal)
	}
	var rp Replay
	if json.Unmarshal(b, &rp) != nil {
		os.Exit(ExitInternal)
	}
	p := new(P)
	if json.Unmarshal(rp.Plan, p) != nil {
		os.Exit(ExitInternal)
	}
	want := rp.Violation.Sig()
	dir, _ := os.MkdirTemp(filepath.Dir(cfg.Out), "shrink")
	defer os.RemoveAll(dir)
	n := 0
	still := func(c *P) bool {
		n++
		pb, _ := json.Marshal(c)
		cand := rp
		cand.Plan = pb
		cand.TraceHash = ""
		cb, _ := json.Marshal(cand)
		cpath := filepath.Join(dir, fmt.Sprintf("c%d.json", n))
		os.WriteFile(cpath, cb, 0o644)
		code, dl := RunChild(cpath, filepath.Join(dir, fmt.Sprintf("o%d.json", n)), eng.Property)
		if code == ExitDeadlock && dl != nil && dl.Violation.Sig() == want {
			rp.Violation = dl.Violation
			rp.Trace = dl.Trace
			return true
		}
		return code == ExitViolation // the replay child saw the same signature
	}
	valid := eng.Valid
	if valid == nil {
		valid = func(*P) bool { return true }
	}
	min, tried := Shrink(p, valid, still, cfg.ShrinkBudget)
	pb, _ := json.Marshal(min)
	rp.Plan = pb
	rp.Shrunk = tried
	os.MkdirAll(cfg.ReplayDir, 0o755)
	kind := "deadlock"
	if rp.Violation.Kind != "deadlock" {
		kind = "child"
	}
	rp.TraceHash = ""
	path := filepath.Join(cfg.ReplayDir, fmt.Sprintf("%s-seed%d-%s-%016x.json", eng.Property, cfg.Seed, kind, SplitMix64(uint64(len(pb)))^hashBytes(pb)))
	ob, _ := json.MarshalIndent(rp, "", " ")
	os.WriteFile(path, ob, 0o644)
	fmt.Printf("SHRUNK %s\n", path)
	os.Exit(ExitOK)
}

func hashBytes(b []byte) uint64 {
	x := uint64(14695981039346656037)
	for _, c := range b {
		x ^= uint64(c)
		x *= 1099511628211
	}
	return x
}

// RunChild executes this test binary in replay mode on the given file and
// returns its exit code and, for a deadlocked run, the verdict it left.
func RunChild(replayPath, out, prop string) (int, *Replay) {
	cmd := exec.Command(os.Args[0], "-test.run", "^TestWorker$", "-test.cpu", "1", "-test.timeout", "5m")
	env := []string{}
	for _, e := range os.Environ() {
		if strings.HasPrefix(e, "VERIF_MODE=") || strings.HasPrefix(e, "VERIF_REPLAY=") || strings.HasPrefix(e, "VERIF_OUT=") || strings.HasPrefix(e, "GORACE=") {
			continue
		}
		env = append(env, e)
	}
	cmd.Env = append(env, "VERIF_MODE=replay", "VERIF_REPLAY="+replayPath, "VERIF_OUT="+out, "VERIF_PROP="+prop,
		"GORACE=halt_on_error=0 exitcode=0 suppress_equal_stacks=0 suppress_equal_addresses=0 log_path="+out+".race")
	done := make(chan error, 1)
	if err := cmd.Start(); err != nil {
		return ExitInternal, nil
	}
	go func() { done <- cmd.Wait() }()
	select {
	case <-done:
	case <-time.After(120 * time.Second):
		cmd.Process.Kill()
		<-done
		return ExitInternal, nil
	}
	code := cmd.ProcessState.ExitCode()
	if code == ExitDeadlock {
		b, err := os.ReadFile(DeadlockFile(out))
		if err == nil {
			var rp Replay
			if json.Unmarshal(b, &rp) == nil {
				return code, &rp
			}
		}
	}
	return code, nil
}

var evalSeq atomic.Uint64

// SpawnEval runs this test binary as a fresh process in mode "childeval" on
// the given plan and returns what it wrote. The child is single-threaded as
// far as the harness is concerned and reads no schedule: what it computes is a
// function of the plan and of the library.
func SpawnEval(plan any) ([]byte, error) {
	dir := os.TempDir()
	if currentCfg.Out != "" {
		dir = filepath.Dir(currentCfg.Out)
	}
	n := evalSeq.Add(1)
	in := filepath.Join(dir, fmt.Sprintf("eval-%d-%d.in.json", os.Getpid(), n))
	out := filepath.Join(dir, fmt.Sprintf("eval-%d-%d.out.json", os.Getpid(), n))
	defer os.Remove(in)
	defer os.Remove(out)
	pb, _ := json.Marshal(plan)
	if err := os.WriteFile(in, pb, 0o644); err != nil {
		return nil, err
	}
	cmd := exec.Command(os.Args[0], "-test.run", "^TestWorker$", "-test.cpu", "1", "-test.timeout", "2m")
	env := []string{}
	for _, e := range os.Environ() {
		if strings.HasPrefix(e, "VERIF_MODE=") || strings.HasPrefix(e, "VERIF_REPLAY=") || strings.HasPrefix(e, "VERIF_OUT=") || strings.HasPrefix(e, "GORACE=") || strings.HasPrefix(e, "VERIF_HASHLOG=") {
			continue
		}
		env = append(env, e)
	}
	cmd.Env = append(env, "VERIF_MODE=childeval", "VERIF_REPLAY="+in, "VERIF_OUT="+out, "VERIF_PROP="+currentCfg.Property)
	done := make(chan error, 1)
	if err := cmd.Start(); err != nil {
		return nil, err
	}
	go func() { done <- cmd.Wait() }()
	select {
	case err := <-done:
		if err != nil {
			return nil, fmt.Errorf("child process: %v", err)
		}
	case <-time.After(120 * time.Second):
		cmd.Process.Kill()
		<-done
		return nil, errors.New("child process timed out")
	}
	return os.ReadFile(out)
}

// SortedKeys is a helper for deterministic iteration.
func SortedKeys[V any](m map[string]V) []string {
	ks := make([]string, 0, len(m))
	for k := range m {
		ks = append(ks, k)
	}
	sort.Strings(ks)
	return ks
}

// StartWatchdog starts a real-time watchdog outside any bubble: if the
// scheduler makes no progress for a long time the process is abandoned with
// the internal-error exit code (never a violation).
// RealTicks counts 10 ms steps of real time (the clock inside a bubble is virtual).
var RealTicks atomic.Int64

func StartWatchdog() {
	go func() {
		for {
			time.Sleep(10 * time.Millisecond)
			RealTicks.Add(1)
		}
	}()
	go func() {
		last := Progress.Load()
		lastRuns := runsDone.Load()
		idle := 0
		for {
			time.Sleep(5 * time.Second)
			p, r := Progress.Load(), runsDone.Load()
			if p == last && r == lastRuns {
				idle++
			} else {
				idle = 0
			}
			last, lastRuns = p, r
			if idle >= 12 {
				fmt.Fprintf(os.Stderr, "SIM-FATAL watchdog: no progress for 60 s; plan=%s\n", currentPlanJSON)
				if flushStats != nil {
					flushStats()
				}
				os.Exit(ExitInternal)
			}
		}
	}()
}
