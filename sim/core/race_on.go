//go:build race

package core

import "runtime"

// RaceBuild reports whether the binary was built with -race.
const RaceBuild = true

// hideSync makes the race detector ignore the synchronisation performed by
// the scheduler's own hand-offs (memory accesses are still recorded). Without
// this every channel hand-off of the serialising scheduler would be a
// happens-before edge and no data race in the system under test could ever
// be reported.
func hideSync()   { runtime.RaceDisable() }
func unhideSync() { runtime.RaceEnable() }

// LongCap shortens a long history for binaries built with the race detector.
func LongCap(n, cap int) int {
	if n > cap {
		return cap
	}
	return n
}
