package core

import (
	"os"
	"sort"
	"strconv"
	"strings"
)

// RaceReport is one parsed report of the race detector.
type RaceReport struct {
	Text      string
	RepoFrame []string // first library frame of each access stack
	Harness   bool     // no library frame in either access stack
}

const repoPkg = "github.com/elastic/go-libaudit"

var raceLogOff int64

func raceLogFile() string {
	for _, f := range strings.Fields(os.Getenv("GORACE")) {
		if strings.HasPrefix(f, "log_path=") {
			return strings.TrimPrefix(f, "log_path=") + "." + strconv.Itoa(os.Getpid())
		}
	}
	return ""
}

// NewRaceReports returns the reports the race detector wrote since the last
// call. It is cheap when nothing was written.
func NewRaceReports() []RaceReport {
	if !RaceBuild {
		return nil
	}
	path := raceLogFile()
	if path == "" {
		return nil
	}
	fi, err := os.Stat(path)
	if err != nil || fi.Size() <= raceLogOff {
		return nil
	}
	b, err := os.ReadFile(path)
	if err != nil {
		return nil
	}
	text := string(b[raceLogOff:])
	raceLogOff = int64(len(b))
	var out []RaceReport
	for _, blk := range strings.Split(text, "==================") {
		if !strings.Contains(blk, "DATA RACE") {
			continue
		}
		out = append(out, parseRace(blk))
	}
	return out
}

func parseRace(blk string) RaceReport {
	rep := RaceReport{Text: blk}
	lines := strings.Split(blk, "\n")
	section := ""
	found := false
	accesses := 0
	for _, ln := range lines {
		switch {
		case strings.HasPrefix(ln, "Write at"), strings.HasPrefix(ln, "Read at"), strings.HasPrefix(ln, "Previous write at"),
			strings.HasPrefix(ln, "Previous read at"), strings.HasPrefix(ln, "Atomic"), strings.HasPrefix(ln, "Previous atomic"):
			section = "access"
			found = false
			accesses++
		case strings.HasPrefix(ln, "Goroutine "):
			section = "created"
		case section == "access" && strings.HasPrefix(ln, "  ") && !strings.HasPrefix(ln, "   "):
			// The access belongs to the innermost frame that is not the Go
			// runtime / standard library: the library under test or the harness.
			fn := strings.TrimSpace(ln)
			if found {
				continue
			}
			switch {
			case strings.Contains(fn, repoPkg):
				fn = strings.TrimSuffix(fn, "()")
				rep.RepoFrame = append(rep.RepoFrame, strings.TrimPrefix(fn, repoPkg+"/v2"))
				found = true
			case strings.HasPrefix(fn, "verifsim/"):
				found = true // harness memory access
			}
		}
	}
	rep.Harness = len(rep.RepoFrame) == 0
	sort.Strings(rep.RepoFrame)
	return rep
}

// Class is the signature discriminator of a race: the library frames involved.
func (r RaceReport) Class() string { return strings.Join(r.RepoFrame, "|") }
