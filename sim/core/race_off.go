//go:build !race

package core

const RaceBuild = false

func hideSync()   {}
func unhideSync() {}
