//go:build !race

package core

const RaceBuild = false

func hideSync()   {}
func unhideSync() {}

// LongCap shortens a long history for binaries built with the race detector (not this one).
func LongCap(n, cap int) int { return n }
