package core

import (
	"encoding/base64"
	"math"
	"math/bits"
)

// Violation is one oracle failure. (Property, Kind, Class) is its signature:
// Class is the narrowest discriminator the oracle can compute (method name,
// cause class, racing frames), so that "same property, other cause" is a
// different violation.
type Violation struct {
	Property string `json:"property"`
	Kind     string `json:"kind"`
	Class    string `json:"class"`
	Detail   string `json:"detail"`
}

func (v Violation) Sig() string { return v.Property + "/" + v.Kind + "/" + v.Class }

// Result is what one simulated run reports.
type Result struct {
	Violations []Violation
	TraceHash  uint64
	SchedHash  uint64
	Nontrivial bool
	Probes     []int // indexed by the engine's probe table
	Faults     []int // indexed by the engine's fault table (fired, not configured)
	SimNs      int64 // virtual time covered
	Steps      int   // scheduler steps or operations executed
	Ops        int
	Abstract   []uint64 // abstract states visited
	Trace      []string // human readable, only when tracing
	Verdict    Verdict
	VerdictMsg string
	// Long marks a long history (300-70000 events or commands). Binaries built
	// with the race detector execute a shortened version of such a plan (the
	// detector's shadow of a few GB of transient heap is never given back), so
	// their histories are not compared across binaries by the determinism gate.
	Long bool
}

func (r *Result) Add(prop, kind, class, detail string) {
	r.Violations = append(r.Violations, Violation{prop, kind, class, detail})
}

// For returns the first violation of the given property, if any.
func (r *Result) For(prop string) *Violation {
	for i := range r.Violations {
		if r.Violations[i].Property == prop {
			return &r.Violations[i]
		}
	}
	return nil
}

// HLL is a small HyperLogLog sketch (2^12 registers, ~1.6 % standard error)
// used to count distinct run fingerprints across workers.
type HLL struct{ reg [1 << 12]uint8 }

func (h *HLL) Add(x uint64) {
	x = SplitMix64(x)
	idx := x >> 52
	w := x<<12 | 1<<11
	r := uint8(bits.LeadingZeros64(w) + 1)
	if r > h.reg[idx] {
		h.reg[idx] = r
	}
}

func (h *HLL) Estimate() float64 {
	m := float64(len(h.reg))
	sum := 0.0
	zeros := 0
	for _, r := range h.reg {
		sum += 1 / float64(uint64(1)<<r)
		if r == 0 {
			zeros++
		}
	}
	alpha := 0.7213 / (1 + 1.079/m)
	e := alpha * m * m / sum
	if e <= 2.5*m && zeros > 0 {
		e = m * math.Log(m/float64(zeros))
	}
	return e
}

func (h *HLL) Encode() string { return base64.StdEncoding.EncodeToString(h.reg[:]) }

// Distinct counts distinct 64-bit fingerprints exactly up to a cap and keeps a
// HyperLogLog sketch for merging across workers.
type Distinct struct {
	set map[uint64]struct{}
	cap int
	Sk  HLL
	Sat bool
}

func NewDistinct(cap int) *Distinct { return &Distinct{set: map[uint64]struct{}{}, cap: cap} }

// Add returns true when x was not seen before (exact while below the cap).
func (d *Distinct) Add(x uint64) bool {
	d.Sk.Add(x)
	if _, ok := d.set[x]; ok {
		return false
	}
	if len(d.set) >= d.cap {
		d.Sat = true
		return true
	}
	d.set[x] = struct{}{}
	return true
}

func (d *Distinct) Exact() int { return len(d.set) }
