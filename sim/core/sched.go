package core

import (
	"bytes"
	"fmt"
	"os"
	"runtime"
	"strconv"
	"strings"
	"sync/atomic"
	"time"
)

// Task states.
const (
	stParked      = iota // at a yield point, runnable
	stRunning            // released, not yet settled
	stLockBlocked        // blocked on a real lock of the system under test
	stSutSleep           // inside a time.Sleep made by the system under test
	stTimer              // harness sleep: waits for a scheduler-owned virtual timer
	stWaitKey            // parked before a lock operation until the modelled lock is free
	stDone
)

const (
	rYield = iota
	rDone
	rSleep
	rSys
	rLockReq
	rUnlock
)

// SysReq is a simulated system call handed to the scheduler goroutine, which
// owns all shared simulator state (kernel, socket queues).
type SysReq struct {
	Op   int
	A, B int64
	Data []byte // cloned with CloneBytes before it crosses
}

// SysResp is the result handed back when the task is resumed.
type SysResp struct {
	Errno int64
	N     int64
	A     int64
	Data  []byte // the task must CloneBytes it before use
}

type report struct {
	kind  int
	point string
	d     int64
	sys   SysReq
	key   string
	mode  int // 0 exclusive, 1 shared
}

// keyHold is the scheduler's model of one lock of the system under test
// (sync.Mutex, sync.RWMutex, sync.Once), identified by expression text and
// the address it is reached from. The instrumented copy of the library
// announces lock operations (Task.LockReq / UnlockNote); a task whose lock is
// held by a parked task stays parked in the simulator instead of blocking for
// real, so no goroutine-status probe is needed and hand-over order does not
// depend on the Go runtime. Locks the model does not know block for real and
// are handled by the probing fall-back.
type keyHold struct {
	writer  *Task
	readers map[*Task]int
}

// Task is a caller thread of the system under test: a real goroutine that is
// parked at yield points and released one at a time by the scheduler.
type Task struct {
	ID     int
	Name   string
	s      *Sched
	fn     func(*Task)
	resume chan SysResp
	report chan report
	state  int
	goid   uint64
	wake   int64 // virtual ns since run start, for stTimer
	wkey   string
	wmode  int
	wpend  bool // an exclusive request that has been issued and now excludes new shared holders (RWMutex writer preference)
	sys    *SysReq
	point  string
	fin    atomic.Uint32 // set by the task's goroutine when fn has returned; read by Run (a join the race detector can see)
	Panic  string        // set when fn panicked
	// Local is scratch space for the task's own goroutine (engines use it to
	// count scheduling points within one operation).
	Local int
}

// Verdict of a scheduled run.
type Verdict int

const (
	VerdictOK       Verdict = iota
	VerdictDeadlock         // every unfinished task is blocked on a lock
	VerdictStepCap          // step budget exhausted with runnable tasks left
	VerdictStuck            // lock-blocked and sleeping tasks only: simulator cannot progress
)

// Sched is the seeded scheduler. Scheduling decision i picks
// options[tape[i] % len(options)]; an exhausted tape picks option 0.
type Sched struct {
	H        *Hist
	Tasks    []*Task
	Tape     []uint16
	tapePos  int
	Steps    int
	MaxSteps int
	Start    time.Time
	// SysHandler executes a simulated system call in the scheduler goroutine
	// at the moment the calling task is chosen to run again.
	SysHandler func(task int, req SysReq) SysResp
	// AfterStep is evaluated in the scheduler goroutine after every step.
	AfterStep func()
	// SchedHash accumulates (task, point) of every decision.
	SchedHash uint64
	Switches  int
	lastTask  int
	// statistics
	LockBlocks  int
	SutSleeps   int
	ClockJumps  int
	StackProbes int
	// Strategy: 0 uniform; 1 sticky (stay on the running task unless the tape
	// entry is a multiple of StickyMod).
	Strategy  int
	StickyMod int
	hazard    bool
	keys      map[string]*keyHold
	KeyWaits  int // times a task had to wait for a modelled lock
}

// Progress is bumped on every scheduler step; an external real-time watchdog
// (outside the bubble) reads it.
var Progress atomic.Uint64

func NewSched(h *Hist, tape []uint16, maxSteps int) *Sched {
	return &Sched{H: h, Tape: tape, MaxSteps: maxSteps, Start: time.Now(), SchedHash: 14695981039346656037, lastTask: -1}
}

// Go registers a task. Tasks are started by Run.
func (s *Sched) Go(name string, fn func(*Task)) *Task {
	t := &Task{ID: len(s.Tasks), Name: name, s: s, fn: fn,
		resume: make(chan SysResp), report: make(chan report, 1), state: stParked, point: "start"}
	s.Tasks = append(s.Tasks, t)
	return t
}

//go:norace
func (t *Task) setGoid(id uint64) { t.goid = id }

//go:norace
func (t *Task) setPanic(p string) { t.Panic = p }

func curGoid() uint64 {
	var buf [64]byte
	n := runtime.Stack(buf[:], false)
	// "goroutine 123 ["
	f := bytes.Fields(buf[:n])
	if len(f) < 2 {
		return 0
	}
	id, _ := strconv.ParseUint(string(f[1]), 10, 64)
	return id
}

func (t *Task) main() {
	t.setGoid(curGoid())
	hideSync()
	<-t.resume
	unhideSync()
	func() {
		defer func() {
			if r := recover(); r != nil {
				t.setPanic(fmt.Sprint(r))
			}
		}()
		t.fn(t)
	}()
	// The scheduler's hand-offs are hidden from the race detector; the end of a
	// task is not: what a task wrote is ordered before what the driver does
	// once Run has returned (fork and join are real edges, nothing in between is).
	t.fin.Store(1)
	hideSync()
	t.report <- report{kind: rDone}
	unhideSync()
}

// Yield parks the task at a named point until the scheduler releases it.
func (t *Task) Yield(point string) {
	hideSync()
	t.report <- report{kind: rYield, point: point}
	<-t.resume
	unhideSync()
}

// Sleep is a harness sleep: a scheduler-owned virtual timer.
func (t *Task) Sleep(d time.Duration) {
	hideSync()
	t.report <- report{kind: rSleep, d: int64(d)}
	<-t.resume
	unhideSync()
}

// LockReq announces that the task is about to acquire a lock of the system
// under test. It is a scheduling point; the task is released once the
// modelled lock is free (and is then its holder).
func (t *Task) LockReq(key string, shared bool) {
	m := 0
	if shared {
		m = 1
	}
	hideSync()
	t.report <- report{kind: rLockReq, key: key, mode: m, point: "lock"}
	<-t.resume
	unhideSync()
}

// UnlockNote announces that the task has released a lock (scheduling point).
func (t *Task) UnlockNote(key string, shared bool) {
	m := 0
	if shared {
		m = 1
	}
	hideSync()
	t.report <- report{kind: rUnlock, key: key, mode: m, point: "unlock"}
	<-t.resume
	unhideSync()
}

// Sys performs a simulated system call. It is a scheduling point: the call
// takes effect when the scheduler next chooses this task.
func (t *Task) Sys(req SysReq) SysResp {
	req.Data = CloneBytes(req.Data)
	hideSync()
	t.report <- report{kind: rSys, sys: req, point: "sys"}
	resp := <-t.resume
	unhideSync()
	resp.Data = CloneBytes(resp.Data)
	return resp
}

// Me returns the task the calling goroutine belongs to (nil outside tasks).
// Normally that is the single running task. Once a task has been seen blocked
// on a lock, a released waiter may run beside the releasing task until its
// next yield, so from then on the goroutine id decides.
func (s *Sched) Me() *Task {
	if !s.getHazard() {
		i := s.H.Cur()
		if i < 0 || i >= len(s.Tasks) {
			return nil
		}
		return s.Tasks[i]
	}
	id := curGoid()
	for _, t := range s.Tasks {
		if t.getGoid() == id {
			return t
		}
	}
	return nil
}

func (s *Sched) getHazard() bool { return s.H.Hazard() }

func (s *Sched) setHazard() {
	if !s.H.Hazard() {
		s.H.SetHazard(s.whoAmI)
	}
}

// whoAmI identifies the calling goroutine's task by goroutine id (-1: none).
func (s *Sched) whoAmI() int {
	id := curGoid()
	for _, t := range s.Tasks {
		if t.getGoid() == id {
			return t.ID
		}
	}
	return -1
}

//go:norace
func (t *Task) getGoid() uint64 { return t.goid }

func (s *Sched) now() int64 { return int64(time.Since(s.Start)) }

func (s *Sched) next(n int) int {
	if n <= 1 {
		if s.tapePos < len(s.Tape) {
			s.tapePos++
		}
		return 0
	}
	if s.tapePos < len(s.Tape) {
		v := int(s.Tape[s.tapePos])
		s.tapePos++
		return v % n
	}
	return 0
}

func (s *Sched) apply(t *Task, r report) {
	switch r.kind {
	case rYield:
		t.state = stParked
		t.point = r.point
	case rDone:
		t.state = stDone
		t.point = "done"
	case rSleep:
		t.state = stTimer
		t.wake = s.now() + r.d
		t.point = "sleep"
	case rSys:
		t.state = stParked
		q := r.sys
		t.sys = &q
		t.point = "sys"
	case rLockReq:
		t.state = stWaitKey
		t.wkey, t.wmode, t.wpend = r.key, r.mode, false
		t.point = "lock"
		if !s.keyFree(t) {
			s.KeyWaits++
		}
	case rUnlock:
		t.state = stParked
		t.point = "unlock"
		if k := s.keys[r.key]; k != nil {
			if r.mode == 1 {
				if k.readers[t] > 0 {
					k.readers[t]--
					if k.readers[t] == 0 {
						delete(k.readers, t)
					}
				}
			} else if k.writer == t {
				k.writer = nil
			}
		}
	}
}

// keyFree reports whether task t could take the modelled lock now. A task
// that already holds it is let through: the real lock operation then decides
// (a real self-deadlock is seen by the probing fall-back).
func (s *Sched) keyFree(t *Task) bool {
	k := s.keys[t.wkey]
	if k == nil {
		return true
	}
	if k.writer != nil && k.writer != t {
		return false
	}
	if t.wmode == 0 {
		for r := range k.readers {
			if r != t {
				return false
			}
		}
		return true
	}
	// shared request: a pending exclusive request of another task excludes
	// new shared holders, nested ones included (sync.RWMutex)
	for _, u := range s.Tasks {
		if u != t && u.state == stWaitKey && u.wpend && u.wmode == 0 && u.wkey == t.wkey {
			return false
		}
	}
	return true
}

// canPend reports whether a waiting exclusive request may be "issued" now:
// only meaningful while the lock is held shared (then it starts to exclude
// new shared holders; whether that happens before or after another task's
// shared request is a scheduling decision like any other).
func (s *Sched) canPend(t *Task) bool {
	if t.wmode != 0 || t.wpend {
		return false
	}
	k := s.keys[t.wkey]
	return k != nil && len(k.readers) > 0
}

func (s *Sched) grant(t *Task) {
	if s.keys == nil {
		s.keys = map[string]*keyHold{}
	}
	k := s.keys[t.wkey]
	if k == nil {
		k = &keyHold{readers: map[*Task]int{}}
		s.keys[t.wkey] = k
	}
	if t.wmode == 1 {
		k.readers[t]++
	} else if k.writer == nil {
		k.writer = t
	}
	t.wkey = ""
}

// forgetLocks removes task t from the holders of every modelled lock.
func (s *Sched) forgetLocks(t *Task) {
	for _, k := range s.keys {
		if k.writer == t {
			k.writer = nil
		}
		delete(k.readers, t)
	}
}

// settle waits (spinning, never blocking durably) until the released task has
// reported or is seen blocked on a lock or inside a sleep.
func (s *Sched) settle(t *Task) {
	for spins := 0; ; spins++ {
		select {
		case r := <-t.report:
			s.apply(t, r)
			return
		default:
		}
		runtime.Gosched()
		if spins >= 1 {
			reason := goStatus(t.goid, s)
			switch classify(reason) {
			case clsLock:
				if t.state != stLockBlocked {
					s.LockBlocks++
				}
				if strings.HasPrefix(reason, "sync.Cond") {
					// sync.Cond.Wait released its Locker without telling the lock
					// model (and takes it again, untold, before it returns): what
					// this task holds is no longer known. Forget its locks; from
					// here on the real locks decide and the probing fall-back
					// sees who is blocked.
					s.forgetLocks(t)
				}
				s.setHazard()
				t.state = stLockBlocked
				return
			case clsSleep:
				if t.state != stSutSleep {
					s.SutSleeps++
				}
				t.state = stSutSleep
				return
			case clsRun:
			case clsParkedOnHarness:
				// Either it sent its report between our poll and the status
				// read (the report is buffered before the task parks, so it is
				// there now), or it is blocked on a channel of the system
				// under test (for example waiting for another caller to
				// finish): that is handled like a held lock.
				select {
				case r := <-t.report:
					s.apply(t, r)
					return
				default:
				}
				if t.state != stLockBlocked {
					s.LockBlocks++
				}
				s.setHazard()
				t.state = stLockBlocked
				return
			default:
				fmt.Fprintf(os.Stderr, "SIM-FATAL unknown wait reason %q for task %d\n", goStatus(t.goid, s), t.ID)
				os.Exit(2)
			}
		}
		if spins > 50_000_000 {
			fmt.Fprintf(os.Stderr, "SIM-FATAL step of task %d never settled\n", t.ID)
			os.Exit(2)
		}
	}
}

const (
	clsRun = iota
	clsLock
	clsSleep
	clsParkedOnHarness
	clsUnknown
)

func classify(reason string) int {
	switch {
	case reason == "running", reason == "runnable", reason == "syscall", reason == "", strings.HasPrefix(reason, "GC "),
		reason == "preempted", reason == "copystack", reason == "waiting", reason == "dead", reason == "idle":
		return clsRun
	case strings.HasPrefix(reason, "sync.Mutex"), strings.HasPrefix(reason, "sync.RWMutex"),
		strings.HasPrefix(reason, "sync.Cond"), strings.HasPrefix(reason, "semacquire"),
		strings.HasPrefix(reason, "sync.WaitGroup"):
		return clsLock
	case reason == "sleep":
		return clsSleep
	case reason == "chan receive", reason == "chan send", reason == "select":
		return clsParkedOnHarness
	}
	return clsUnknown
}

var stackBuf = make([]byte, 1<<20)

// goStatus returns the wait reason of goroutine id with the decorations
// ("(durable)", ", synctest bubble N", ", 2 minutes") stripped.
func goStatus(id uint64, s *Sched) string {
	s.StackProbes++
	n := runtime.Stack(stackBuf, true)
	dump := stackBuf[:n]
	key := []byte("goroutine " + strconv.FormatUint(id, 10) + " [")
	i := bytes.Index(dump, key)
	for i > 0 && dump[i-1] != '\n' {
		j := bytes.Index(dump[i+1:], key)
		if j < 0 {
			return "dead"
		}
		i = i + 1 + j
	}
	if i < 0 {
		return "dead"
	}
	rest := dump[i+len(key):]
	j := bytes.IndexByte(rest, ']')
	if j < 0 {
		return ""
	}
	reason := string(rest[:j])
	if k := strings.IndexByte(reason, ','); k >= 0 {
		reason = reason[:k]
	}
	reason = strings.TrimSpace(strings.ReplaceAll(reason, "(durable)", ""))
	return reason
}

// resettle looks again at tasks that were lock-blocked or sleeping: the last
// step may have released them.
func (s *Sched) resettle() {
	for _, t := range s.Tasks {
		if t.state == stLockBlocked || t.state == stSutSleep {
			s.quickPoll(t)
		}
	}
}

// quickPoll gives a task that was seen blocked a chance to report. If the
// last step released it, it runs (GOMAXPROCS is 1) until its next yield or
// block while the scheduler goroutine yields the processor a few times. No
// goroutine-status probe is made here: the task was positively identified as
// blocked before, and a full stack dump per blocked task per step dominated
// the run time. A deadlock verdict is confirmed with real probes (confirm).
func (s *Sched) quickPoll(t *Task) {
	for i := 0; i < 12; i++ {
		select {
		case r := <-t.report:
			s.apply(t, r)
			return
		default:
		}
		runtime.Gosched()
	}
	select {
	case r := <-t.report:
		s.apply(t, r)
	default:
	}
}

// confirm re-examines every task believed to be blocked with a real probe.
// It returns true when some task made progress (the caller re-evaluates).
func (s *Sched) confirm() bool {
	progress := false
	for _, t := range s.Tasks {
		if t.state == stLockBlocked || t.state == stSutSleep {
			before := t.state
			s.settle(t)
			if t.state != before {
				progress = true
			}
		}
	}
	return progress
}

// Run starts every task and schedules them until all are done or a verdict
// other than OK is reached.
func (s *Sched) Run() Verdict {
	v := s.run()
	for _, t := range s.Tasks {
		t.fin.Load() // join (see Task.main)
	}
	return v
}

func (s *Sched) run() Verdict {
	for _, t := range s.Tasks {
		go t.main()
	}
	for {
		Progress.Add(1)
		s.resettle()
		now := s.now()
		var run []*Task
		unfinished, locked, sleepers, timers, waiting := 0, 0, 0, 0, 0
		_ = waiting
		var nextWake int64 = -1
		for _, t := range s.Tasks {
			switch t.state {
			case stTimer:
				if t.wake <= now {
					t.state = stParked
				}
			}
			switch t.state {
			case stWaitKey:
				unfinished++
				if s.keyFree(t) || s.canPend(t) {
					run = append(run, t)
				} else {
					waiting++
				}
			case stParked:
				run = append(run, t)
				unfinished++
			case stLockBlocked:
				locked++
				unfinished++
			case stSutSleep:
				sleepers++
				unfinished++
			case stTimer:
				timers++
				unfinished++
				if nextWake < 0 || t.wake < nextWake {
					nextWake = t.wake
				}
			}
		}
		if unfinished == 0 {
			return VerdictOK
		}
		canAdvance := (sleepers > 0 || timers > 0) && locked == 0
		if len(run) == 0 && !canAdvance {
			if s.confirm() {
				continue
			}
			// Nobody can run, as far as the wait reasons of the goroutines tell. A
			// real deadlock stays; a task that was only caught in a short wait of
			// the runtime or of a library below the one under test (seen once, under
			// load, as a deadlock of two tasks in the ID caches) moves on. Look again
			// for half a second of real time before saying so.
			moved := false
			for t0 := RealTicks.Load(); RealTicks.Load()-t0 < 50 && !moved; {
				for k := 0; k < 200; k++ {
					runtime.Gosched()
				}
				moved = s.confirm()
			}
			if moved {
				continue
			}
			if sleepers == 0 && timers == 0 {
				return VerdictDeadlock
			}
			return VerdictStuck
		}
		if s.Steps >= s.MaxSteps {
			return VerdictStepCap
		}
		s.Steps++
		nopt := len(run)
		if canAdvance {
			nopt++
		}
		var choice int
		if s.Strategy == 1 && s.lastTask >= 0 {
			// sticky: keep running the last task while it is runnable unless
			// the tape forces a switch.
			stay := -1
			for i, t := range run {
				if t.ID == s.lastTask {
					stay = i
				}
			}
			v := s.next(1 << 16)
			if stay >= 0 && (s.StickyMod <= 1 || v%s.StickyMod != 0) {
				choice = stay
			} else {
				choice = v % nopt
			}
		} else {
			choice = s.next(nopt)
		}
		if choice >= len(run) {
			s.advance(nextWake, sleepers > 0)
			s.mixSched(-1, "advance")
		} else {
			t := run[choice]
			if t.ID != s.lastTask && s.lastTask >= 0 {
				s.Switches++
			}
			s.lastTask = t.ID
			s.mixSched(t.ID, t.point)
			s.H.SetCur(t.ID, s.Steps)
			var resp SysResp
			if t.sys != nil {
				req := *t.sys
				t.sys = nil
				if s.SysHandler != nil {
					resp = s.SysHandler(t.ID, req)
				}
			}
			if t.state == stWaitKey && !s.keyFree(t) {
				// the exclusive request is issued and stays blocked
				t.wpend = true
				s.mixSched(t.ID, "pend")
				if s.AfterStep != nil {
					s.AfterStep()
				}
				continue
			}
			if t.state == stWaitKey {
				s.grant(t)
				t.wpend = false
			}
			t.state = stRunning
			hideSync()
			t.resume <- resp
			unhideSync()
			s.settle(t)
			s.H.SetCur(-1, s.Steps)
		}
		if s.AfterStep != nil {
			s.AfterStep()
		}
	}
}

func (s *Sched) mixSched(task int, point string) {
	x := s.SchedHash
	x ^= uint64(task + 2)
	x *= 1099511628211
	for i := 0; i < len(point); i++ {
		x ^= uint64(point[i])
		x *= 1099511628211
	}
	s.SchedHash = x
}

// advance moves the virtual clock to the next scheduler-owned timer or lets a
// task that sleeps inside the system under test wake up. It is only called
// when no task is blocked on a lock (such a goroutine is not durably blocked
// and would freeze the bubble's clock).
func (s *Sched) advance(nextWake int64, haveSleeper bool) {
	s.ClockJumps++
	if !haveSleeper {
		d := nextWake - s.now()
		if d > 0 {
			time.Sleep(time.Duration(d))
		}
		return
	}
	// Block durably on the first sleeper's report; the bubble jumps the clock
	// to its wake-up, the task runs to its next yield and reports.
	var sl *Task
	for _, t := range s.Tasks {
		if t.state == stSutSleep {
			sl = t
			break
		}
	}
	s.H.SetCur(sl.ID, s.Steps)
	hideSync()
	r := <-sl.report
	unhideSync()
	s.apply(sl, r)
	s.H.SetCur(-1, s.Steps)
}

// Abandon is called on a deadlock verdict: the bubble cannot be left while a
// goroutine is blocked on a mutex, so the worker records the verdict and
// exits the process.
func (s *Sched) Describe() string {
	var b strings.Builder
	for _, t := range s.Tasks {
		fmt.Fprintf(&b, "task %d %s state=%d point=%s; ", t.ID, t.Name, t.state, t.point)
		if t.state == stWaitKey {
			fmt.Fprintf(&b, "(waits for lock %s) ", t.wkey)
		}
	}
	return b.String()
}

// Blocked returns the ids of lock-blocked tasks.
func (s *Sched) Blocked() []int {
	var out []int
	for _, t := range s.Tasks {
		if t.state == stLockBlocked {
			out = append(out, t.ID)
		}
	}
	return out
}
