package core

import "sort"

// Ev is one record of the run history. Fields are numeric (plus one optional
// string) so that a record can be stored with plain stores from any task.
type Ev struct {
	K          uint16 // kind, engine-defined
	Task       int16  // recording task (-1 = scheduler / driver)
	Step       int32  // scheduler step during which it was recorded
	A, B, C, D int64
	S          string
}

// Hist is the global, totally ordered history of one run. Exactly one task
// runs at a time, so appends never overlap in real time; they are made with
// plain stores inside //go:norace functions because the scheduler's
// hand-offs are deliberately hidden from the race detector (see race_on.go).
// All *writes* to shared harness memory go through such functions, so the
// detector has no record of them and instrumented reads elsewhere cannot
// pair with them.
type Hist struct {
	evs      []Ev
	n        int
	overflow bool
	curTask  int
	curStep  int
	// hazard is set once a task has been seen blocked on a lock: from then on
	// a released waiter may run beside the releasing task until its next
	// yield, so the recording task is identified by its goroutine (who).
	hazard bool
	who    func() int
	sorted bool
}

func NewHist(capacity int) *Hist { return &Hist{evs: make([]Ev, capacity), curTask: -1} }

//go:norace
func (h *Hist) Reset() {
	h.n = 0
	h.overflow = false
	h.curTask = -1
	h.curStep = 0
	h.hazard = false
	h.who = nil
	h.sorted = false
}

// Rec appends an event, stamping the current task and step.
//
//go:norace
func (h *Hist) Rec(k uint16, a, b, c, d int64, s string) {
	if h.n >= len(h.evs) {
		h.overflow = true
		return
	}
	e := &h.evs[h.n]
	e.K = k
	task := h.curTask
	if h.hazard && h.who != nil {
		task = h.who()
	}
	e.Task = int16(task)
	e.Step = int32(h.curStep)
	e.A, e.B, e.C, e.D = a, b, c, d
	e.S = s
	h.n++
}

//go:norace
func (h *Hist) SetCur(task, step int) {
	h.curTask = task
	h.curStep = step
}

//go:norace
func (h *Hist) Cur() int { return h.curTask }

//go:norace
func (h *Hist) SetHazard(who func() int) {
	h.hazard = true
	h.who = who
}

//go:norace
func (h *Hist) Hazard() bool { return h.hazard }

//go:norace
func (h *Hist) Len() int { return h.n }

//go:norace
func (h *Hist) Overflow() bool { return h.overflow }

// Events returns the recorded prefix in canonical order. Call only when no
// task is running. Within one scheduler step normally a single task records;
// after a lock hand-over the released waiter may record beside the releasing
// task, and which of the two the Go runtime lets run first depends on real
// time (sync.Mutex starvation mode). Their records are concurrent, so the
// canonical order groups them by task inside the step (per-task order kept).
//
//go:norace
func (h *Hist) Events() []Ev {
	evs := h.evs[:h.n]
	if h.hazard && !h.sorted {
		sort.SliceStable(evs, func(a, b int) bool {
			if evs[a].Step != evs[b].Step {
				return evs[a].Step < evs[b].Step
			}
			return evs[a].Task < evs[b].Task
		})
		h.sorted = true
	}
	return evs
}

// Hash64 is FNV-1a over the canonical history (kinds, tasks, numbers, text).
func (h *Hist) Hash64() uint64 {
	x := uint64(14695981039346656037)
	mix := func(v uint64) {
		for i := 0; i < 8; i++ {
			x ^= v & 0xff
			x *= 1099511628211
			v >>= 8
		}
	}
	for _, e := range h.Events() {
		mix(uint64(e.K)<<32 | uint64(uint16(e.Task)))
		mix(uint64(e.A))
		mix(uint64(e.B))
		mix(uint64(e.C))
		mix(uint64(e.D))
		for i := 0; i < len(e.S); i++ {
			x ^= uint64(e.S[i])
			x *= 1099511628211
		}
		mix(uint64(e.Step))
	}
	return x
}

// CloneBytes copies b with plain loads and stores that the race detector
// does not see. It is used whenever bytes cross between a task and the
// scheduler goroutine.
//
//go:norace
func CloneBytes(b []byte) []byte {
	if b == nil {
		return nil
	}
	out := make([]byte, len(b))
	for i := 0; i < len(b); i++ {
		out[i] = b[i]
	}
	return out
}
