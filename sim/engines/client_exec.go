package engines

import (
	"bytes"
	"errors"
	"fmt"
	"io"
	"os"
	"strconv"
	"syscall"
	"time"

	"github.com/anishathalye/porcupine"
	libaudit "github.com/elastic/go-libaudit/v2"

	"verifsim/core"
	"verifsim/kern"
)

// probes of the client engine
const (
	kpUnsolSkipped = iota
	kpEagain9ThenOK
	kpEintrRun
	kpErrnoReported
	kpSemanticErrno
	kpStaleRefused
	kpRelaxedCall
	kpDelayBoundary450
	kpGetRulesMulti
	kpDeleteRulesPartial
	kpUnsolBetweenAckAndData
	kpShortStatusReply
	kpLongStatusReply
	kpFromWireShort
	kpFromWirePartialWord
	kpNoWaitSent
	kpWaitAcksStoppedAtError
	kpWaitAcksNothingPending
	kpWaitAcksAfterError
	kpSecondCloseNoop
	kpConcurrentCloseBlockedInOnce
	kpClosePIDCleared
	kpRulesOverwrittenBuffer
	kpSendConcurrentOverlap
	kpRecvShort
	kpRecvSpoofPid
	kpRecvNonNetlink
	kpRecvStaleTail
	kpSendMaxPayload
	kpCallerPid
	kpPorcupineChecked
	kpSendErrno
	kpImmutableKernel
	kpRecvSpoofMulticast
	kpRecvSpoofHighPid
	kpStatusKept
	kpTwoClientRecv
	kpSpoofAhead
	kpAckTruncated
	kpAckBareErrno
	kpRecvIntr
	kpStrayError
	kpTwoClientSet
	kpCloseErrno
	kpRecvHard
	kpSeqWrap
	kpUnreadVerdictLeft
	kpDataBeforeAck
	kpSendSpareCap
	kpSendSharedPayload
	kpRecvLenField
	kpNoWaitBurst
	kpAckDelayedPastCall
	kpBigErrorAck
	kpAckMistyped
	kpPreload
	nKProbes
)

var kProbeNames = []string{"unsolicited_record_skipped_inside_call", "eagain_x9_then_success", "eintr_run_inside_call", "kernel_errno_reported",
	"semantic_errno_from_kernel_state", "stale_reply_refused", "call_judged_in_relaxed_mode", "reply_delayed_exactly_450ms",
	"getrules_with_2plus_rules", "deleterules_stopped_at_failure", "event_between_ack_and_data", "status_reply_shorter_than_32",
	"status_reply_longer_than_44", "fromwire_short_buffer", "fromwire_partial_word", "nowait_request_sent", "waitacks_stopped_at_first_error",
	"waitacks_with_nothing_pending", "waitacks_called_again_after_error", "repeated_close_was_noop", "second_close_blocked_in_once",
	"close_cleared_pid", "getrules_buffer_overwritten_later", "sends_overlapped_in_time", "receive_short_datagram", "receive_foreign_port_id",
	"receive_non_netlink_address", "short_after_long_datagram", "send_payload_8970", "send_with_caller_pid", "porcupine_histories_checked",
	"sendto_failed", "kernel_immutable", "receive_foreign_port_id_with_group_mask", "receive_foreign_port_id_2^31_or_more", "getstatus_result_checked_again_at_end", "receive_on_two_independent_clients_in_tasks", "forged_reply_queued_ahead_of_the_kernels", "ack_datagram_truncated", "ack_of_20_to_35_bytes_errno_without_echo", "receive_interrupted_by_a_signal_then_repeated", "sequence_0_nlmsg_error_read_inside_call", "setters_on_two_clients_in_two_tasks", "socket_close_reported_an_error", "receive_failed_with_enobufs_inside_call", "sequence_counter_started_next_to_wrap",
	"verdict_left_unread_by_a_failed_call", "status_reply_ahead_of_its_ack", "send_payload_with_spare_capacity", "send_same_payload_slice_again",
	"receive_datagram_whose_length_field_differs_from_its_size", "more_than_16_nowait_requests_outstanding", "ack_delayed_past_a_whole_waitforpendingacks_call", "error_ack_echoing_a_request_of_8900_bytes_or_more", "refusal_with_a_netlink_type_other_than_error", "client_preloaded_with_300_to_70000_commands"}

var kFaultNames = []string{"injected_errno", "unsolicited_records", "stale_reply", "delayed_reply", "truncated_or_padded_reply", "spoofed_datagram",
	"recv_eintr", "recv_eagain_injected", "recv_eagain_natural", "sendto_errno", "concurrent_close_tasks", "concurrent_send_tasks"}

const (
	kfErrno = iota
	kfUnsol
	kfStale
	kfDelay
	kfTrunc
	kfSpoof
	kfEintr
	kfEagainInj
	kfEagainNat
	kfSendErr
	kfConcClose
	kfConcSend
	nKFaults
)

type keptStatus struct {
	st   *libaudit.AuditStatus
	want [kern.NWords]uint32
	op   int
}

type keptRules struct {
	got  [][]byte
	want [][]byte
	op   int
}

type kctx struct {
	p           *KPlan
	res         *core.Result
	k           *kern.Kernel
	port        *kernelPort
	callHard    bool // a receive failed hard (ENOBUFS) inside the call being judged
	callStray   bool // a sequence-0 NLMSG_ERROR datagram was read inside the call being judged
	lastSend    *sendBuf
	client      *libaudit.AuditClient
	nl          libaudit.NetlinkSendReceiver
	realNL      *libaudit.NetlinkClient
	stub        *stubNetlink
	start       time.Time
	trace       bool
	prop        string
	pending     []int // ledger indexes of NoWait requests whose ACK has not been consumed
	setPID      bool
	closes      int
	kept        []keptRules
	keptSt      []keptStatus
	hadWaitErr  bool
	h           uint64
	sentSeqs    []uint32
	lastRecvLen int
}

func (c *kctx) tr(f string, a ...any) {
	if c.trace {
		c.res.Trace = append(c.res.Trace, fmt.Sprintf(f, a...))
	}
}

func (c *kctx) mix(v uint64) {
	c.h ^= v
	c.h *= 1099511628211
}

func (c *kctx) viol(kind, class, f string, a ...any) {
	for _, v := range c.res.Violations {
		if v.Property == c.prop && v.Kind == kind && v.Class == class {
			return
		}
	}
	c.res.Add(c.prop, kind, class, fmt.Sprintf(f, a...))
}

// preload issues p.Preload ordinary commands on the client, without faults,
// each judged by the plain rule (nil exactly when the kernel acknowledged with
// 0; a status is what the kernel laid out; a dump is the kernel's list), and
// then forgets the conversation: the plan's operations start on a client and a
// kernel that have a history.
func (c *kctx) preload() {
	k, p := c.k, c.p
	faults, script, sendErr, hard, closeErr := k.Faults, c.port.script, c.port.sendErrno, c.port.recvHard, c.port.closeErrno
	k.Faults, c.port.script, c.port.sendErrno, c.port.recvHard, c.port.closeErrno = nil, nil, nil, nil, nil
	c.res.Probes[kpPreload]++
	c.res.Long = true
	preN := core.LongCap(p.Preload, 2000)
	bad := func(j int, what string, f string, a ...any) {
		c.viol("long-run", what, "after %d ordinary commands on this client (command mix %d): "+f, append([]any{j, p.PreStyle}, a...)...)
	}
	judge := func(j int, name string, err error) bool {
		switch {
		case p.Scenario == 16 && name != "GetStatus":
			// C16 is about what goes on the wire and what GetStatus hands back
			if len(k.Ledger) != 1 {
				bad(j, name, "%s sent %d datagrams, want exactly one", name, len(k.Ledger))
			}
			return false
		case p.Scenario == 17 && name != "GetRules":
			// C17 is about the ACK bookkeeping (judged at the end of the preload) and about returned rule data
			return false
		}
		firstErr := 0
		for _, r := range k.Ledger {
			if r.Verdict != 0 {
				firstErr = r.Verdict
				break
			}
		}
		ok := true
		switch {
		case len(k.Ledger) == 0:
			bad(j, name, "%s sent nothing (err=%v)", name, err)
			ok = false
		case firstErr == 0 && err != nil:
			bad(j, name, "%s returned %q although the kernel acknowledged every request with errno 0", name, err.Error())
			ok = false
		case firstErr != 0 && err == nil:
			bad(j, name, "%s returned nil although the kernel answered with errno %d", name, firstErr)
			ok = false
		}
		if k.Pending() > 0 && ok && firstErr == 0 {
			bad(j, name, "%s left %d datagrams unread", name, k.Pending())
			ok = false
		}
		return ok && firstErr == 0
	}
	noWait := 0
	for j := 0; j < preN; j++ {
		if len(c.res.Violations) > 0 {
			break
		}
		if p.PreStyle == 4 {
			k.Unsolicited(1+j%3, 0)
		}
		step := j
		if p.PreStyle == 0 {
			step = 1
		} else if p.PreStyle == 1 {
			step = 0
		}
		switch {
		case p.PreStyle == 2:
			if err := c.client.SetRateLimit(uint32(j), libaudit.NoWait); err != nil {
				bad(j, "SetRateLimit", "SetRateLimit(NoWait) returned %v", err)
			}
			noWait++
			continue
		case step%5 == 0:
			err := c.client.SetBacklogLimit(uint32(j), libaudit.WaitForReply)
			judge(j, "SetBacklogLimit", err)
		case step%5 == 1 && p.ReplySize < 32:
			err := c.client.SetRateLimit(uint32(j), libaudit.WaitForReply) // (this kernel's status replies are too short to decode)
			judge(j, "SetRateLimit", err)
		case step%5 == 1:
			st, err := c.client.GetStatus()
			if judge(j, "GetStatus", err) && len(k.Ledger) > 0 && st != nil {
				if sent := k.Ledger[0].StatusSent; len(sent) >= 32 {
					lim := len(sent)
					if lim > kern.StatusSize {
						lim = kern.StatusSize
					}
					if want, got := u32words(sent[:lim]), statusWords(st); want != got {
						bad(j, "GetStatus", "GetStatus returned %v, the kernel laid out %v", got, want)
					}
				}
			}
		case step%5 == 2:
			err := c.client.AddRule(ruleBytes(uint32(j % 12)))
			judge(j, "AddRule", err)
		case step%5 == 3:
			rules, err := c.client.GetRules()
			if judge(j, "GetRules", err) && len(k.Ledger) > 0 && !equalRules(rules, k.Ledger[0].RulesSent) {
				bad(j, "GetRules", "GetRules returned %d rules %s, the kernel sent %d rules %s", len(rules), sumRules(rules), len(k.Ledger[0].RulesSent), sumRules(k.Ledger[0].RulesSent))
			}
		default:
			err := c.client.DeleteRule(ruleBytes(uint32((j - 2) % 12)))
			judge(j, "DeleteRule", err)
		}
		for _, d := range k.Queue {
			d.Consumed = true
		}
		k.Forget()
	}
	if noWait > 0 && len(c.res.Violations) == 0 {
		err := c.client.WaitForPendingACKs()
		if err != nil {
			bad(noWait, "WaitForPendingACKs", "WaitForPendingACKs returned %q with %d acknowledgements of errno 0 outstanding", err.Error(), noWait)
		} else if n := k.Pending(); n > 0 {
			bad(noWait, "WaitForPendingACKs", "WaitForPendingACKs returned nil and left %d of %d acknowledgements unread", n, noWait)
		}
		for _, d := range k.Queue {
			d.Consumed = true
		}
		k.Forget()
	}
	k.Faults, c.port.script, c.port.sendErrno, c.port.recvHard, c.port.closeErrno = faults, script, sendErr, hard, closeErr
	c.port.slot, c.port.armed, c.port.sends, c.port.recvCalls, c.port.sendFailed, c.port.hardFired = 0, false, 0, 0, 0, 0
	c.port.naturalEagain, c.port.injEintr, c.port.injEagain = 0, 0, 0
}

// keeperNetlink is a transport of the kind an application may write: every
// datagram gets a buffer of its own, and what the parser returned is kept.
type keeperNetlink struct {
	n       uint32
	results [][]syscall.NetlinkMessage
}

func keeperDatagram(i uint32) []byte {
	b := sendPayload(int(i)+31, 16+20+int(i%90))
	putU32(b[0:], uint32(len(b)))
	putU16(b[4:], uint16(1300+i%700))
	putU32(b[8:], i)
	return b
}

func (f *keeperNetlink) Receive(_ bool, p libaudit.NetlinkParser) ([]syscall.NetlinkMessage, error) {
	f.n++
	msgs, err := p(keeperDatagram(f.n))
	f.results = append(f.results, msgs)
	return msgs, err
}
func (f *keeperNetlink) Send(syscall.NetlinkMessage) (uint32, error) { return 0, nil }
func (f *keeperNetlink) Close() error                                { return nil }

// preloadTransport gives the transport scenario a history: many sends, many
// receives, or many datagrams parsed for a transport that keeps the results.
func (c *kctx) preloadTransport() {
	k, p := c.k, c.p
	sendErr := c.port.sendErrno
	c.port.sendErrno = nil
	c.res.Probes[kpPreload]++
	c.res.Long = true
	preN := core.LongCap(p.Preload, 2000)
	bad := func(j int, what, f string, a ...any) {
		c.viol("long-run", what, "after %d earlier calls on this transport: "+f, append([]any{j}, a...)...)
	}
	switch p.PreStyle {
	case 0:
		var last uint32
		for j := 0; j < preN && len(c.res.Violations) == 0; j++ {
			payload := sendPayload(j+5, 4+j%60)
			seq, err := c.realNL.Send(syscall.NetlinkMessage{Header: syscall.NlMsghdr{Type: uint16(1000 + j%16), Flags: 5}, Data: payload})
			switch {
			case err != nil:
				bad(j, "Send", "Send returned %v", err)
			case j > 0 && int32(seq-last) <= 0:
				bad(j, "Send", "Send returned sequence %d after %d", seq, last)
			case len(k.Ledger) != 1:
				bad(j, "Send", "one Send put %d datagrams on the wire", len(k.Ledger))
			default:
				w := k.Ledger[0].Wire
				if len(w) != 16+len(payload) || getU32(w[8:]) != seq || getU32(w[0:]) != uint32(len(w)) || getU16(w[4:]) != uint16(1000+j%16) || !bytes.Equal(w[16:], payload) {
					bad(j, "Send", "Send(payload %d bytes) returned sequence %d; the wire carries a %d-byte datagram with sequence %d, type %d", len(payload), seq, len(w), getU32(w[8:]), getU16(w[4:]))
				}
			}
			last = seq
			for _, d := range k.Queue {
				d.Consumed = true
			}
			k.Forget()
		}
		c.sentSeqs = append(c.sentSeqs, last)
	case 1:
		for j := 0; j < preN && len(c.res.Violations) == 0; j++ {
			data := keeperDatagram(uint32(j + 1))
			k.Inject(data, 0, false)
			m, err := c.client.Receive(true)
			switch {
			case err != nil || m == nil:
				bad(j, "Receive", "Receive failed (%v) on a %d-byte datagram from the kernel", err, len(data))
			case int(m.Type) != int(getU16(data[4:])) || !bytes.Equal(m.Data, data[16:]):
				bad(j, "Receive", "Receive returned type %d and %d payload bytes for a datagram of type %d with %d payload bytes (or other bytes)", m.Type, len(m.Data), getU16(data[4:]), len(data)-16)
			}
			k.Forget()
		}
	default:
		f := &keeperNetlink{}
		cl := &libaudit.AuditClient{Netlink: f}
		for j := 0; j < preN && len(c.res.Violations) == 0; j++ {
			want := keeperDatagram(uint32(j + 1))
			m, err := cl.Receive(true)
			if err != nil || m == nil || int(m.Type) != int(getU16(want[4:])) || !bytes.Equal(m.Data, want[16:]) {
				bad(j, "parser", "the audit parser's answer for a %d-byte datagram is wrong (err=%v)", len(want), err)
			}
		}
		for i, msgs := range f.results {
			want := keeperDatagram(uint32(i + 1))
			if len(msgs) != 1 || msgs[0].Header.Type != getU16(want[4:]) || msgs[0].Header.Seq != uint32(i+1) || !bytes.Equal(msgs[0].Data, want[16:]) {
				bad(len(f.results), "parser", "what the audit parser returned for datagram %d (kept by the transport, which gave every datagram a buffer of its own) no longer describes that datagram", i+1)
				break
			}
		}
	}
	c.port.sendErrno = sendErr
	c.port.sends, c.port.recvCalls, c.port.sendFailed = 0, 0, 0
}

func propOfScenario(s int) string { return "C" + fmt.Sprintf("%02d", s) }

var clientHist = core.NewHist(4096)

// ExecKPlan runs a client plan against SimKernel.
func ExecKPlan(p *KPlan, trace bool) *core.Result {
	res := &core.Result{Probes: make([]int, nKProbes), Faults: make([]int, nKFaults)}
	start := time.Now()
	now := func() int64 { return int64(time.Since(start)) }
	k := kern.New(p.ReplySize, now)
	if len(p.Status) == kern.NWords {
		copy(k.Status[:], p.Status)
	}
	for _, id := range p.InitRules {
		k.Rules = append(k.Rules, ruleBytes(id))
	}
	k.Faults = p.Faults
	port := &kernelPort{k: k, script: p.Recv, sendErrno: p.SendErr, closeErrno: p.CloseErr, recvHard: p.RecvHard}
	gb := &gateBox{g: &directGate{port}}
	c := &kctx{p: p, res: res, k: k, port: port, start: start, trace: trace, prop: propOfScenario(p.Scenario), h: 14695981039346656037}
	if p.Transport == 1 && HooksEnabled {
		c.realNL = newRealNetlink(&simSocket{gb: gb}, p.PortID, make([]byte, 16+8970+bigBuf(p)), respWriter(p))
		c.nl = c.realNL
	} else {
		c.stub = newStubNetlink(gb, p.PortID)
		c.stub.rbuf = make([]byte, 16+8970+bigBuf(p))
		c.nl = c.stub
	}
	if c.realNL == nil && p.Scenario != 18 {
		// forged datagrams are only meaningful under the real NetlinkClient's sender check
		fs := append([]kern.ReqFault(nil), p.Faults...)
		for i := range fs {
			fs[i].Spoof = 0
		}
		k.Faults = fs
	}
	if p.SeqStart != 0 && (p.Scenario != 18 || c.realNL != nil) {
		k.ExemptSeq0 = true
		if c.realNL != nil {
			setRealSeq(c.realNL, p.SeqStart)
		} else {
			c.stub.seq = p.SeqStart
		}
		res.Probes[kpSeqWrap]++
	}
	c.client = &libaudit.AuditClient{Netlink: c.nl}
	if k.Status[kern.WEnabled] == 2 {
		res.Probes[kpImmutableKernel]++
	}

	if p.Scenario == 16 {
		// the only static judgements: constants that no setter puts on the wire
		if uint32(libaudit.AuditStatusLost) != kern.MaskLost {
			c.viol("constant", "AuditStatusLost", "AuditStatusLost is %#x, AUDIT_STATUS_LOST is %#x", uint32(libaudit.AuditStatusLost), kern.MaskLost)
		}
		if libaudit.AuditGet != kern.AuditGet || libaudit.AuditSet != kern.AuditSet {
			c.viol("constant", "AuditGet/AuditSet", "AuditGet=%d AuditSet=%d, UAPI says %d and %d", libaudit.AuditGet, libaudit.AuditSet, kern.AuditGet, kern.AuditSet)
		}
	}
	if p.Preload > 0 && p.Scenario != 18 {
		c.preload()
	}
	if p.Preload > 0 && p.Scenario == 18 && c.realNL != nil {
		c.preloadTransport()
	}
	for i, op := range p.Ops {
		c.execOp(i, op)
	}
	if len(p.Tasks) > 0 {
		c.concurrentPhase(gb)
	}
	c.finish()
	res.Faults[kfErrno] += k.FiredErrno
	res.Faults[kfUnsol] += k.FiredUnsol
	res.Faults[kfStale] += k.FiredStale
	res.Faults[kfDelay] += k.FiredDelay
	res.Faults[kfTrunc] += k.FiredTrunc
	res.Faults[kfSpoof] += k.FiredSpoof
	res.Probes[kpBigErrorAck] += k.FiredBigAck
	res.Faults[kfEintr] += port.injEintr
	res.Faults[kfEagainInj] += port.injEagain
	res.Faults[kfEagainNat] += port.naturalEagain
	res.SimNs = now()
	res.TraceHash = c.h
	res.Ops = len(p.Ops)
	res.Steps += len(k.Ledger)
	res.Nontrivial = len(k.Ledger) >= 2 || (p.Scenario == 18 && len(p.Ops)+len(p.Tasks) >= 2) || (p.Scenario == 16 && len(p.Ops) >= 2)
	return res
}

func u32words(b []byte) [kern.NWords]uint32 {
	var padded [kern.StatusSize]byte
	copy(padded[:], b)
	var w [kern.NWords]uint32
	for i := range w {
		w[i] = getU32(padded[4*i:])
	}
	return w
}

func statusWords(s *libaudit.AuditStatus) [kern.NWords]uint32 {
	return [kern.NWords]uint32{uint32(s.Mask), s.Enabled, s.Failure, s.PID, s.RateLimit, s.BacklogLimit, s.Lost, s.Backlog,
		s.FeatureBitmap, s.BacklogWaitTime, s.BacklogWaitTimeActual}
}

func waitMode(nowait bool) libaudit.WaitMode {
	if nowait {
		return libaudit.NoWait
	}
	return libaudit.WaitForReply
}

var failureModes = []libaudit.FailureMode{libaudit.SilentOnFailure, libaudit.LogOnFailure, libaudit.PanicOnFailure}

// drainPending brings the client into the documented state for a waiting
// call: no NoWait ACK outstanding.
func (c *kctx) drainPending(i int) {
	for n := 0; len(c.pending) > 0 && n < 40; n++ {
		c.execWaitAcks(i, true)
	}
	if len(c.pending) > 0 {
		// the client cannot get rid of its pending ACKs; make the kernel side
		// consistent so later calls are judged on their own.
		for _, d := range c.k.Queue {
			d.Consumed = true
		}
		c.pending = nil
	}
}

func (c *kctx) execOp(i int, op KOp) {
	k := c.k
	if c.closes > 0 && op.K != kClose && op.K != kFromWire {
		return // nothing is promised about a closed client
	}
	isSetter := op.K >= kSetEnabled && op.K <= kSetPID
	waiting := op.K == kGetStatus || op.K == kGetRules || op.K == kAddRule || op.K == kDeleteRule || op.K == kDeleteRules || (isSetter && !op.NoWait)
	if waiting && len(c.pending) > 0 {
		c.drainPending(i)
	}
	L0 := len(k.Ledger)
	recv0 := c.port.recvCalls
	nat0 := c.port.naturalEagain
	sf0 := c.port.sendFailed
	hard0 := c.port.hardFired
	unsol0 := countConsumed(k, kern.DUnsolicited)
	strayBefore := strayConsumed(k)
	leftovers := 0
	for _, d := range k.Queue {
		if !d.Consumed && d.Kind != kern.DUnsolicited && !d.Unexcused {
			leftovers++
		}
	}
	t0 := time.Since(c.start)
	c.port.maxRun = 0
	c.port.run = 0
	var err error
	var st *libaudit.AuditStatus
	var rules [][]byte
	var count int
	panicked := ""
	func() {
		defer func() {
			if r := recover(); r != nil {
				panicked = fmt.Sprint(r)
			}
		}()
		switch op.K {
		case kGetStatus:
			st, err = c.client.GetStatus()
		case kGetRules:
			rules, err = c.client.GetRules()
		case kAddRule:
			err = c.client.AddRule(ruleBytes(op.A))
		case kDeleteRule:
			err = c.client.DeleteRule(ruleBytes(op.A))
		case kDeleteRules:
			count, err = c.client.DeleteRules()
		case kSetEnabled:
			err = c.client.SetEnabled(op.A != 0, waitMode(op.NoWait))
		case kSetImmutable:
			err = c.client.SetImmutable(waitMode(op.NoWait))
		case kSetFailure:
			err = c.client.SetFailure(failureModes[op.A%3], waitMode(op.NoWait))
		case kSetRateLimit:
			err = c.client.SetRateLimit(op.A, waitMode(op.NoWait))
		case kSetBacklogLimit:
			err = c.client.SetBacklogLimit(op.A, waitMode(op.NoWait))
		case kSetBacklogWaitTime:
			err = c.client.SetBacklogWaitTime(int32(op.A), waitMode(op.NoWait))
		case kSetPID:
			c.setPID = true
			err = c.client.SetPID(waitMode(op.NoWait))
		case kWaitAcks:
			// handled below
		case kClose:
			err = c.client.Close()
		case kSleep:
			time.Sleep(time.Duration(op.D))
		}
	}()
	switch op.K {
	case kWaitAcks:
		c.execWaitAcks(i, false)
		return
	case kFromWire:
		c.execFromWire(i, op)
		return
	case kRecvRaw:
		c.execRecvRaw(i, op)
		return
	case kSendRaw:
		c.execSendRaw(i, op)
		return
	case kSleep:
		return
	}
	elapsed := time.Since(c.start) - t0
	reqs := k.Ledger[L0:]
	name := kopNames[op.K]
	c.mix(uint64(op.K)<<32 ^ uint64(op.A))
	c.mix(uint64(len(reqs))<<8 ^ uint64(c.port.recvCalls-recv0))
	if err != nil {
		c.mix(0xe44)
	}
	c.tr("#%d %s a=%d nowait=%v -> err=%v requests=%d receives=%d elapsed=%s", i, name, op.A, op.NoWait, err, len(reqs), c.port.recvCalls-recv0, elapsed)
	for _, r := range reqs {
		c.tr("    kernel saw type=%d flags=%#x seq=%d pid=%d len=%d payload=%d bytes -> verdict errno %d%s", r.Type, r.Flags, r.Seq, r.Pid, r.Len, len(r.Payload), r.Verdict, map[bool]string{true: " (injected)", false: ""}[r.Injected])
	}
	if panicked != "" {
		c.viol("panic", name, "%s panicked: %s", name, panicked)
		return
	}
	if n := countConsumed(k, kern.DUnsolicited) - unsol0; n > 0 {
		c.res.Probes[kpUnsolSkipped] += n
	}
	if c.port.maxRun >= 9 && err == nil {
		c.res.Probes[kpEagain9ThenOK]++
	}
	if c.port.injEintr > 0 {
		c.res.Probes[kpEintrRun]++
	}
	for _, r := range reqs {
		if r.Idx < len(c.p.Faults) && c.p.Faults[r.Idx].DelayNs == 450e6 && err == nil {
			c.res.Probes[kpDelayBoundary450]++
		}
	}
	_ = nat0

	sendFailed := c.port.sendFailed - sf0
	if sendFailed > 0 {
		c.res.Probes[kpSendErrno]++
		c.res.Faults[kfSendErr] += sendFailed
	}
	if op.K == kClose {
		c.judgeClose(i, err, reqs, recv0, sendFailed > 0)
		return
	}

	switch c.p.Scenario {
	case 16:
		if sendFailed > 0 {
			// the request of this call was refused by sendto: nothing reached the kernel, nothing to decode
			for _, d := range k.Queue {
				d.Consumed = true
			}
			return
		}
		c.callHard = c.port.hardFired > hard0
		if c.callHard {
			c.res.Probes[kpRecvHard]++
		}
		c.callStray = strayConsumed(k) > strayBefore
		if c.callStray {
			c.res.Probes[kpStrayError]++
			if tookStrayVerdict(err, 0) && (len(reqs) == 0 || reqs[0].Verdict == 0) {
				c.viol("stray-verdict-accepted", name, "%s returned %q: the errno of a sequence-0 NLMSG_ERROR datagram, not of the kernel's answer", name, err.Error())
			}
		}
		c.judgeWire(i, op, reqs, st, err)
		// keep later operations independent: consume whatever is left
		for _, d := range k.Queue {
			d.Consumed = true
		}
		return
	}

	// NoWait setters: nothing is received, the ACK stays pending.
	if isSetter && op.NoWait {
		c.res.Probes[kpNoWaitSent]++
		if c.port.recvCalls != recv0 {
			c.viol("nowait-received", name, "%s(NoWait) issued %d receive calls", name, c.port.recvCalls-recv0)
		}
		if len(reqs) == 1 {
			c.pending = append(c.pending, reqs[0].Idx)
		}
		if c.prop == "C17" {
			if err != nil && len(reqs) == 1 {
				c.viol("nowait-error", name, "%s(NoWait) returned %v although the request was sent", name, err)
			}
			if err == nil && sendFailed > 0 {
				c.viol("nowait-send-error-swallowed", name, "%s(NoWait): sendto failed but the call returned nil", name)
			}
		}
		return
	}

	// ---- C08 style judgement (also keeps C17 runs honest about their waiting calls) ----
	relaxed := leftovers > 0
	if strayConsumed(k) > strayBefore {
		// a sequence-0 NLMSG_ERROR was read inside this call: it may skip it or give up, it
		// must not report that datagram's errno as the kernel's verdict
		relaxed = true
		c.res.Probes[kpStrayError]++
		kv := 0
		for _, r := range reqs {
			if r.Verdict != 0 {
				kv = r.Verdict
				break
			}
		}
		if tookStrayVerdict(err, kv) {
			c.viol("stray-verdict-accepted", name, "%s returned %q: the errno of a sequence-0 NLMSG_ERROR datagram, not of the kernel's answer (errno %d)", name, err.Error(), kv)
		}
	}
	if c.port.hardFired > hard0 {
		// a receive failed hard inside this call: it may give up, it must not
		// present partial data or an unread verdict as success
		relaxed = true
		c.res.Probes[kpRecvHard]++
	}
	for _, r := range reqs {
		if r.StaleAhead {
			relaxed = true
		}
		if f := faultOf(c.p, r.Idx); f.AckShort != 0 && f.AckShort-1 < 20 {
			// the verdict was truncated away: the call may fail, it must not claim success for a refused request
			relaxed = true
			c.res.Probes[kpAckTruncated]++
		} else if f.AckShort != 0 && f.AckShort-1 < 36 {
			// an ACK of 20..35 bytes: the errno is there, the echoed request is not (all)
			// there. No kernel sends that and the statement does not speak about it: a
			// call may refuse such an ACK; it must not turn a refusal into success.
			relaxed = true
			c.res.Probes[kpAckBareErrno]++
		}
		if r.AckMistyped {
			// the refusal did not come as an NLMSG_ERROR: the call cannot identify
			// the errno, it must not report success
			relaxed = true
			c.res.Probes[kpAckMistyped]++
		}
		if r.DataFirst {
			// the reply overtook the ACK (outside the property's quantifier): the
			// call may fail, it must not hand out anything but the kernel's data
			relaxed = true
			c.res.Probes[kpDataBeforeAck]++
		}
		if faultOf(c.p, r.Idx).Spoof != 0 && c.realNL != nil {
			// a forged reply was queued ahead of the kernel's: the call may be
			// refused, it must never succeed on the forger's word
			relaxed = true
			c.res.Probes[kpSpoofAhead]++
		}
	}
	firstErr := 0
	for _, r := range reqs {
		if r.Verdict != 0 {
			firstErr = r.Verdict
			break
		}
	}
	if relaxed {
		c.res.Probes[kpRelaxedCall]++
	}
	if firstErr != 0 {
		c.res.Probes[kpErrnoReported]++
		for _, r := range reqs {
			if r.Verdict != 0 && !r.Injected {
				c.res.Probes[kpSemanticErrno]++
			}
		}
	}
	judge := c.prop == "C08"
	if sendFailed > 0 {
		// a request of this call never reached the kernel: it was not acknowledged
		if err == nil && judge {
			c.viol("send-error-swallowed", name, "%s returned nil although sendto failed for one of its requests", name)
		}
		for _, d := range k.Queue {
			d.Consumed = true
		}
		return
	}
	if len(reqs) == 0 {
		if err == nil && judge {
			c.viol("success-without-request", name, "%s returned nil but no request reached the kernel", name)
		}
	} else if err == nil {
		if firstErr != 0 && judge {
			c.viol("nil-on-kernel-error", name, "%s returned nil although the kernel answered request seq %d with errno %d (%s)", name, reqs[0].Seq, firstErr, syscall.Errno(firstErr).Error())
		}
	} else {
		if relaxed {
			c.res.Probes[kpStaleRefused]++
		} else if firstErr == 0 {
			if judge {
				c.viol("error-on-kernel-success", name, "%s returned %q although the kernel acknowledged every request with errno 0", name, err.Error())
			}
		} else if ok, why := identifies(err, firstErr, name); !ok && judge {
			c.viol("errno-not-identified", name, "%s: kernel errno %d (%s) but %s", name, firstErr, syscall.Errno(firstErr).Error(), why)
		}
	}
	// data
	if err == nil && firstErr == 0 && len(reqs) > 0 {
		switch op.K {
		case kGetStatus:
			r := reqs[0]
			if st == nil {
				if judge {
					c.viol("nil-status", name, "GetStatus returned nil status and nil error")
				}
			} else if r.StatusSent != nil && len(r.StatusSent) >= 32 {
				want := u32words(r.StatusSent)
				got := statusWords(st)
				if want != got && judge {
					c.viol("status-mismatch", name, "GetStatus returned %v, the kernel sent %v (reply of %d bytes)", got, want, len(r.StatusSent))
				}
				c.keptSt = append(c.keptSt, keptStatus{st: st, want: want, op: i})
				if f := faultOf(c.p, r.Idx); f.UnsolAfter > 0 {
					c.res.Probes[kpUnsolBetweenAckAndData]++
				}
			}
		case kGetRules:
			r := reqs[0]
			if len(r.RulesSent) >= 2 {
				c.res.Probes[kpGetRulesMulti]++
			}
			if !equalRules(rules, r.RulesSent) && judge {
				c.viol("rules-mismatch", name, "GetRules returned %d rules %s, the kernel sent %d rules %s", len(rules), sumRules(rules), len(r.RulesSent), sumRules(r.RulesSent))
			}
			c.kept = append(c.kept, keptRules{got: rules, want: r.RulesSent, op: i})
		case kDeleteRules:
			r := reqs[0]
			if count != len(r.RulesSent) && judge {
				c.viol("deleterules-count", name, "DeleteRules returned %d, the kernel listed %d rules", count, len(r.RulesSent))
			}
			if len(reqs)-1 != len(r.RulesSent) && judge {
				c.viol("deleterules-requests", name, "DeleteRules sent %d delete requests for %d listed rules", len(reqs)-1, len(r.RulesSent))
			}
			for j, dr := range reqs[1:] {
				if j < len(r.RulesSent) && !bytes.Equal(dr.Payload, r.RulesSent[j]) && judge {
					c.viol("deleterules-payload", name, "DeleteRules request %d does not carry listed rule %d", j, j)
				}
			}
		}
	}
	if op.K == kDeleteRules && err != nil && len(reqs) > 1 {
		c.res.Probes[kpDeleteRulesPartial]++
		if count != 0 && judge && !relaxed {
			c.viol("deleterules-count", name, "DeleteRules returned count %d together with an error", count)
		}
	}
	if relaxed || (err != nil && c.k.Pending() > 0) {
		// model the application draining its socket after a failed exchange.
		// What it may find there is the rest of the exchange that failed: the
		// replies to the first request of this call that was refused, faulted
		// or not read to its end. Replies to requests the call sent after
		// that one are verdicts nobody read; they stay queued (not excused),
		// and the next command is judged with them in its way.
		failing := -1
		if !relaxed {
			for _, r := range reqs {
				unread := false
				for _, d := range r.Replies {
					if !d.Consumed {
						unread = true
					}
				}
				if r.Verdict != 0 || unread || faultOf(c.p, r.Idx) != (kern.ReqFault{}) {
					failing = r.Idx
					break
				}
			}
		}
		for _, d := range k.Queue {
			if failing >= 0 && d.Req > failing && !d.Consumed {
				d.Unexcused = true
				c.res.Probes[kpUnreadVerdictLeft]++
				continue
			}
			d.Consumed = true
		}
	}
}

func faultOf(p *KPlan, idx int) kern.ReqFault {
	if idx < len(p.Faults) {
		return p.Faults[idx]
	}
	return kern.ReqFault{}
}

// strayConsumed counts the stray sequence-0 NLMSG_ERROR datagrams read so far.
func strayConsumed(k *kern.Kernel) int {
	n := 0
	for _, d := range k.Queue {
		if d.Consumed && d.Stray {
			n++
		}
	}
	return n
}

// tookStrayVerdict reports whether err carries the errno of a stray datagram
// although that is not what the kernel answered.
func tookStrayVerdict(err error, kernelErrno int) bool {
	var en syscall.Errno
	return err != nil && kernelErrno != kern.StrayErrno && errors.As(err, &en) && int(en) == kern.StrayErrno
}

func countConsumed(k *kern.Kernel, kind int) int {
	n := 0
	for _, d := range k.Queue {
		if d.Consumed && d.Kind == kind {
			n++
		}
	}
	return n
}

func equalRules(a, b [][]byte) bool {
	if len(a) != len(b) {
		return false
	}
	for i := range a {
		if !bytes.Equal(a[i], b[i]) {
			return false
		}
	}
	return true
}

func sumRules(r [][]byte) string {
	s := "["
	for i, x := range r {
		if i > 0 {
			s += " "
		}
		id := uint32(0)
		if len(x) >= 4 {
			id = getU32(x)
		}
		s += fmt.Sprintf("id%d/%dB", int(id)-1, len(x))
	}
	return s + "]"
}

// ---------- C16: wire format ----------

func (c *kctx) judgeWire(i int, op KOp, reqs []*kern.Request, st *libaudit.AuditStatus, err error) {
	name := kopNames[op.K]
	isSetter := op.K >= kSetEnabled && op.K <= kSetPID
	if isSetter {
		if len(reqs) != 1 {
			c.viol("setter-datagrams", name, "%s sent %d datagrams, want exactly one", name, len(reqs))
			return
		}
		r := reqs[0]
		if r.Malformed != "" {
			c.viol("malformed-request", name, "%s: %s", name, r.Malformed)
			return
		}
		if r.Type != kern.AuditSet {
			c.viol("set-type", name, "%s sent message type %d, AUDIT_SET is %d", name, r.Type, kern.AuditSet)
		}
		if r.Flags != kern.FRequest|kern.FAck {
			c.viol("set-flags", name, "%s sent flags %#x, want NLM_F_REQUEST|NLM_F_ACK (0x5)", name, r.Flags)
		}
		if len(r.Payload) != kern.StatusSize {
			c.viol("set-payload-size", name, "%s sent a %d-byte payload, sizeof(struct audit_status) is %d", name, len(r.Payload), kern.StatusSize)
			return
		}
		w := u32words(r.Payload)
		var wantMask uint32
		wantWord := -1
		var wantVal uint32
		switch op.K {
		case kSetEnabled:
			wantMask, wantWord, wantVal = kern.MaskEnabled, kern.WEnabled, op.A&1
			if op.A != 0 {
				wantVal = 1
			}
		case kSetImmutable:
			wantMask, wantWord, wantVal = kern.MaskEnabled, kern.WEnabled, 2
		case kSetFailure:
			wantMask, wantWord, wantVal = kern.MaskFailure, kern.WFailure, op.A%3
		case kSetRateLimit:
			wantMask, wantWord, wantVal = kern.MaskRateLimit, kern.WRateLimit, op.A
		case kSetBacklogLimit:
			wantMask, wantWord, wantVal = kern.MaskBacklogLimit, kern.WBacklogLimit, op.A
		case kSetBacklogWaitTime:
			wantMask, wantWord, wantVal = kern.MaskBacklogWaitTime, kern.WBacklogWaitTime, op.A
		case kSetPID:
			wantMask, wantWord, wantVal = kern.MaskPid, kern.WPid, uint32(os.Getpid())
		}
		if w[kern.WMask] != wantMask {
			cls := name
			c.viol("set-mask", cls, "%s sent mask %#x, the UAPI bit for this setting is %#x", name, w[kern.WMask], wantMask)
		}
		for j := 1; j < kern.NWords; j++ {
			want := uint32(0)
			if j == wantWord {
				want = wantVal
			}
			if w[j] != want {
				kind := "set-stray-field"
				cls := name
				if j == wantWord {
					kind = "set-value"
					if op.K == kSetFailure {
						// by exported name, with the value that reached the wire
						cls = fmt.Sprintf("SetFailure(%s)->%d", []string{"SilentOnFailure", "LogOnFailure", "PanicOnFailure"}[op.A%3], w[j])
					}
				}
				c.viol(kind, cls, "%s(%d): audit_status word %d on the wire is %d, want %d", name, op.A, j, w[j], want)
			}
		}
		return
	}
	if op.K != kGetStatus {
		return
	}
	if len(reqs) != 1 {
		c.viol("get-datagrams", name, "GetStatus sent %d datagrams", len(reqs))
		return
	}
	r := reqs[0]
	if r.Type != kern.AuditGet {
		c.viol("get-type", name, "GetStatus sent message type %d, AUDIT_GET is %d", r.Type, kern.AuditGet)
		return
	}
	if r.Malformed != "" {
		c.viol("malformed-request", name, "%s: %s (datagram of %d bytes)", name, r.Malformed, len(r.Wire))
		return
	}
	if r.Verdict != 0 || r.StatusSent == nil {
		return
	}
	n := len(r.StatusSent)
	if r.DataFirst {
		c.res.Probes[kpDataBeforeAck]++
	}
	forged := faultOf(c.p, r.Idx).Spoof != 0 && c.realNL != nil
	if forged {
		c.res.Probes[kpSpoofAhead]++
	}
	if (err != nil || st == nil) && (r.DataFirst || c.callHard || forged || c.callStray) {
		return // the reply overtook its ACK, a receive failed hard, or a forged datagram sat in front of the ACK or the reply: the call may give up
	}
	if n < 32 {
		c.res.Probes[kpShortStatusReply]++
		if err == nil {
			c.viol("short-reply-accepted", name, "GetStatus accepted an audit_status reply of %d bytes (minimum 32)", n)
		} else if !errors.Is(err, io.ErrUnexpectedEOF) {
			c.viol("short-reply-error", name, "GetStatus on a %d-byte reply returned %q, want an error wrapping io.ErrUnexpectedEOF", n, err.Error())
		}
		return
	}
	if n > 44 {
		c.res.Probes[kpLongStatusReply]++
	}
	if err != nil || st == nil {
		c.viol("status-rejected", name, "GetStatus failed (%v) on a well-formed %d-byte reply", err, n)
		return
	}
	lim := n
	if lim > kern.StatusSize {
		lim = kern.StatusSize
	}
	want := u32words(r.StatusSent[:lim])
	got := statusWords(st)
	if want != got {
		c.viol("status-mismatch", strconv.Itoa(n), "GetStatus returned %v, the kernel laid out %v in a %d-byte reply", got, want, n)
	}
	c.keptSt = append(c.keptSt, keptStatus{st: st, want: want, op: i})
	// exported feature bits, tested by name against what the kernel advertised
	sent := want[kern.WFeatureBitmap]
	feat := []struct {
		name string
		lib  uint32
		uapi uint32
	}{
		{"AuditFeatureBitmapBacklogLimit", uint32(libaudit.AuditFeatureBitmapBacklogLimit), kern.FeatBacklogLimit},
		{"AuditFeatureBitmapBacklogWaitTime", uint32(libaudit.AuditFeatureBitmapBacklogWaitTime), kern.FeatBacklogWaitTime},
		{"AuditFeatureBitmapExecutablePath", uint32(libaudit.AuditFeatureBitmapExecutablePath), kern.FeatExecutablePath},
		{"AuditFeatureBitmapExcludeExtend", uint32(libaudit.AuditFeatureBitmapExcludeExtend), kern.FeatExcludeExtend},
		{"AuditFeatureBitmapSessionIDFilter", uint32(libaudit.AuditFeatureBitmapSessionIDFilter), kern.FeatSessionIDFilter},
		{"AuditFeatureBitmapLostReset", uint32(libaudit.AuditFeatureBitmapLostReset), kern.FeatLostReset},
	}
	for _, f := range feat {
		if (st.FeatureBitmap&f.lib != 0) != (sent&f.uapi != 0) {
			c.viol("feature-bit", f.name, "kernel advertised feature bitmap %#x; testing it with %s (%#x) disagrees with UAPI bit %#x", sent, f.name, f.lib, f.uapi)
		}
	}
}

func (c *kctx) execFromWire(i int, op KOp) {
	n := int(op.A)
	back := make([]byte, n+32)
	for j := range back {
		back[j] = poison
	}
	lead := 16 + int(op.B>>30) // the buffer starts at any alignment (a slice of a larger read buffer)
	buf := back[lead : lead+n : lead+n]
	x := uint64(op.B) | 1
	for j := range buf {
		x = core.SplitMix64(x)
		buf[j] = byte(x)
		if buf[j] == poison || buf[j] == 0xDD {
			buf[j] ^= 0x55
		}
	}
	orig := append([]byte(nil), buf...)
	s := libaudit.AuditStatus{Mask: 0xDDDDDDDD, Enabled: 0xDDDDDDDD, Failure: 0xDDDDDDDD, PID: 0xDDDDDDDD, RateLimit: 0xDDDDDDDD, BacklogLimit: 0xDDDDDDDD,
		Lost: 0xDDDDDDDD, Backlog: 0xDDDDDDDD, FeatureBitmap: 0xDDDDDDDD, BacklogWaitTime: 0xDDDDDDDD, BacklogWaitTimeActual: 0xDDDDDDDD}
	var err error
	panicked := ""
	func() {
		defer func() {
			if r := recover(); r != nil {
				panicked = fmt.Sprint(r)
			}
		}()
		err = s.FromWireFormat(buf)
	}()
	c.mix(uint64(n)<<8 ^ 0x77)
	c.tr("#%d FromWireFormat(len %d) -> err=%v status=%v", i, n, err, statusWords(&s))
	if panicked != "" {
		c.viol("panic", "FromWireFormat", "FromWireFormat(len %d) panicked: %s", n, panicked)
		return
	}
	if !bytes.Equal(orig, buf) {
		c.viol("fromwire-wrote-input", "FromWireFormat", "FromWireFormat modified its input buffer")
	}
	if n < 32 {
		c.res.Probes[kpFromWireShort]++
		if !errors.Is(err, io.ErrUnexpectedEOF) {
			c.viol("fromwire-short", "FromWireFormat", "FromWireFormat on %d bytes returned %v, want io.ErrUnexpectedEOF", n, err)
		}
		return
	}
	if err != nil {
		c.viol("fromwire-rejected", "FromWireFormat", "FromWireFormat rejected a %d-byte buffer: %v", n, err)
		return
	}
	lim := n
	if lim > kern.StatusSize {
		lim = kern.StatusSize
	}
	if n%4 != 0 && n < kern.StatusSize {
		c.res.Probes[kpFromWirePartialWord]++
	}
	want := u32words(buf[:lim])
	if got := statusWords(&s); got != want {
		c.viol("fromwire-mismatch", strconv.Itoa(n), "FromWireFormat(len %d) gave %x, the buffer holds %x (fields it does not reach must be zero; nothing outside it may be read)", n, got, want)
	}
}

// ---------- C17: ACK bookkeeping and Close ----------

func (c *kctx) execWaitAcks(i int, auto bool) {
	k := c.k
	recv0 := c.port.recvCalls
	nat0 := c.port.naturalEagain
	hard0 := c.port.hardFired
	stray0 := strayConsumed(k)
	t0 := time.Since(c.start)
	// what is consumed during the call
	consumedBefore := map[*kern.Datagram]bool{}
	delayed := false // an ACK that is due is not receivable yet when the call starts
	for _, d := range k.Queue {
		if d.Consumed {
			consumedBefore[d] = true
		} else if d.AvailAt > int64(t0) {
			delayed = true
		}
	}
	if len(c.pending) > 16 {
		c.res.Probes[kpNoWaitBurst]++
	}
	var err error
	panicked := ""
	func() {
		defer func() {
			if r := recover(); r != nil {
				panicked = fmt.Sprint(r)
			}
		}()
		err = c.client.WaitForPendingACKs()
	}()
	// the call was cut short from outside: a receive failed hard, or an ACK
	// was still under way when it began (it may give up after its polls)
	hardInCall := c.port.hardFired > hard0
	if hardInCall {
		c.res.Probes[kpRecvHard]++
	}
	elapsed := time.Since(c.start) - t0
	c.mix(0x17<<32 ^ uint64(c.port.recvCalls-recv0))
	if err != nil {
		c.mix(0xe44)
	}
	c.tr("#%d WaitForPendingACKs (pending requests %v, auto=%v) -> err=%v receives=%d natural-EAGAIN=%d elapsed=%s", i, c.pending, auto, err, c.port.recvCalls-recv0, c.port.naturalEagain-nat0, elapsed)
	if panicked != "" {
		c.viol("panic", "WaitForPendingACKs", "WaitForPendingACKs panicked: %s", panicked)
		c.pending = nil
		return
	}
	judge := c.prop == "C17"
	strayInCall := strayConsumed(k) > stray0
	// expected: the pending prefix up to and including the first failing ACK
	var expect []int
	wantErrno := 0
	mistyped := false
	for _, idx := range c.pending {
		expect = append(expect, idx)
		if v := k.Ledger[idx].Verdict; v != 0 {
			wantErrno = v
			// (an ACK without the whole echoed request may be refused as malformed: like a
			// refusal that did not come as an NLMSG_ERROR, any error is acceptable then)
			mistyped = k.Ledger[idx].AckMistyped || faultOf(c.p, idx).AckShort != 0
			break
		}
	}
	if len(c.pending) == 0 {
		c.res.Probes[kpWaitAcksNothingPending]++
	}
	if c.hadWaitErr {
		c.res.Probes[kpWaitAcksAfterError]++
	}
	var got []int
	for _, d := range k.Queue {
		if d.Consumed && !consumedBefore[d] && d.Kind == kern.DAck {
			got = append(got, d.Req)
		}
	}
	if strayInCall {
		// a sequence-0 NLMSG_ERROR (no reply, no audit event) was read by this call: it may
		// skip it or give up on it - what it must not do is report that datagram's errno
		c.res.Probes[kpStrayError]++
		if judge && tookStrayVerdict(err, wantErrno) {
			c.viol("stray-verdict-accepted", "WaitForPendingACKs", "WaitForPendingACKs returned %q: the errno of a sequence-0 NLMSG_ERROR datagram, not of any acknowledgement (the kernel's first error was errno %d)", err.Error(), wantErrno)
		}
		judge = false
	}
	cut := false
	if (hardInCall || delayed) && len(got) < len(expect) && fmt.Sprint(got) == fmt.Sprint(expect[:len(got)]) {
		// It stopped early, in order. It must say so, and what it left is still pending.
		cut = true
		if delayed {
			c.res.Probes[kpAckDelayedPastCall]++
		}
		if err == nil && judge {
			c.viol("waitacks-swallowed", "WaitForPendingACKs", "WaitForPendingACKs returned nil although the ACKs of requests %v were not consumed (pending %v)", expect[len(got):], c.pending)
		}
	}
	if judge && !cut {
		if fmt.Sprint(got) != fmt.Sprint(expect) {
			c.viol("acks-consumed", "WaitForPendingACKs", "WaitForPendingACKs consumed the ACKs of requests %v; pending in send order were %v, so %v were due (first kernel error stops the call)", got, c.pending, expect)
		}
		if c.port.naturalEagain != nat0 && !delayed {
			c.viol("re-wait", "WaitForPendingACKs", "WaitForPendingACKs polled an empty socket %d times (%s of simulated stall): it waited for an ACK that is not outstanding (pending %v)", c.port.naturalEagain-nat0, elapsed, c.pending)
		}
		if wantErrno == 0 && err != nil {
			c.viol("waitacks-error", "WaitForPendingACKs", "WaitForPendingACKs returned %q although every outstanding ACK carried errno 0 (pending %v)", err.Error(), c.pending)
		}
		if wantErrno != 0 {
			if err == nil {
				c.viol("waitacks-swallowed", "WaitForPendingACKs", "WaitForPendingACKs returned nil although request #%d was acknowledged with errno %d", expect[len(expect)-1], wantErrno)
			} else if mistyped {
				// the refusal did not come as an NLMSG_ERROR: an error, whichever, is all that can be asked
				c.res.Probes[kpAckMistyped]++
			} else if ok, why := identifies(err, wantErrno, "WaitForPendingACKs"); !ok {
				c.viol("waitacks-errno", "WaitForPendingACKs", "WaitForPendingACKs: first kernel error is errno %d but %s", wantErrno, why)
			}
		}
	}
	if wantErrno != 0 && !cut {
		c.res.Probes[kpWaitAcksStoppedAtError]++
		c.hadWaitErr = true
	}
	// model update follows the kernel's view of what was really consumed
	left := c.pending[:0:0]
	consumed := map[int]bool{}
	for _, g := range got {
		consumed[g] = true
	}
	for _, idx := range c.pending {
		if !consumed[idx] {
			left = append(left, idx)
		}
	}
	if len(left) == len(c.pending) && len(c.pending) > 0 && auto && !delayed && !hardInCall {
		// no progress: give up on these (reported above when judged)
		for _, d := range k.Queue {
			d.Consumed = true
		}
		left = nil
	}
	c.pending = left
}

func (c *kctx) judgeClose(i int, err error, reqs []*kern.Request, recv0 int, sendFailed bool) {
	c.closes++
	if c.prop != "C17" {
		return
	}
	if c.closes == 1 {
		if sendFailed {
			// the PID-clearing request was lost in sendto: Close may report that
			if c.k.Closes != 1 {
				c.viol("socket-closes", strconv.Itoa(c.k.Closes), "after the first Close (whose PID-clearing send failed) the socket was closed %d times", c.k.Closes)
			}
			if err == nil {
				c.viol("close-send-error-swallowed", "Close", "sendto failed inside Close but Close returned nil")
			}
			return
		}
		c.judgeFirstCloseTraffic(reqs)
		if err != nil && c.port.closeFailed == 0 {
			c.viol("close-error", "Close", "first Close returned %v", err)
		}
		if c.port.closeFailed > 0 {
			c.res.Probes[kpCloseErrno]++
		}
		return
	}
	c.res.Probes[kpSecondCloseNoop]++
	if len(reqs) != 0 {
		c.viol("close-traffic", "Close", "Close call number %d sent %d more requests", c.closes, len(reqs))
	}
	if err != nil {
		c.viol("close-error", "Close", "Close call number %d returned %v, later calls are no-ops", c.closes, err)
	}
	if c.k.Closes != 1 {
		c.viol("socket-closes", strconv.Itoa(c.k.Closes), "after %d Close calls the socket was closed %d times", c.closes, c.k.Closes)
	}
}

func (c *kctx) judgeFirstCloseTraffic(reqs []*kern.Request) {
	clears := 0
	for _, r := range reqs {
		w := u32words(r.Payload)
		if r.Type == kern.AuditSet && w[kern.WMask] == kern.MaskPid && w[kern.WPid] == 0 {
			clears++
		} else {
			c.viol("close-traffic", "Close", "Close sent an unexpected request type=%d mask=%#x", r.Type, w[kern.WMask])
		}
	}
	if c.setPID && clears != 1 {
		c.viol("pid-not-cleared", "Close", "SetPID was used but Close sent %d AUDIT_SET{mask=PID,pid=0} requests", clears)
	}
	if !c.setPID && clears != 0 {
		c.viol("pid-cleared-unasked", "Close", "SetPID was never used but Close cleared the audit PID")
	}
	if clears == 1 {
		c.res.Probes[kpClosePIDCleared]++
	}
	if c.k.Closes != 1 {
		c.viol("socket-closes", strconv.Itoa(c.k.Closes), "after the first Close the socket was closed %d times", c.k.Closes)
	}
}

// finish evaluates end-of-run checks.
func (c *kctx) finish() {
	for _, ks := range c.keptSt {
		c.res.Probes[kpStatusKept]++
		if got := statusWords(ks.st); got != ks.want {
			c.viol("status-changed-later", "GetStatus", "the status returned by GetStatus in op #%d changed after later calls: now %v, the kernel had sent %v for that request", ks.op, got, ks.want)
		}
	}
	for _, kr := range c.kept {
		if !equalRules(kr.got, kr.want) {
			if c.prop == "C17" || c.prop == "C08" {
				c.viol("rules-changed-later", "GetRules", "rule data returned by GetRules in op #%d changed after later receives: now %s, the kernel sent %s", kr.op, sumRules(kr.got), sumRules(kr.want))
			}
		} else if len(kr.want) > 0 && c.port.recvCalls > 0 {
			c.res.Probes[kpRulesOverwrittenBuffer]++
		}
	}
}

// ---------- concurrent phase (closers for C17, senders for C18) ----------

const (
	evKCall = iota + 1
	evKRet
)

func (c *kctx) concurrentPhase(gb *gateBox) {
	h := clientHist
	h.Reset()
	sc := core.NewSched(h, c.p.Tape, 6000)
	sc.Strategy = c.p.Strategy
	sc.StickyMod = 3
	// a second, independent client on its own socket (receiver tasks alternate between the two)
	portB := &kernelPort{k: kern.New(44, func() int64 { return int64(time.Since(c.start)) })}
	gbB := &gateBox{g: &schedGate{sc: sc, port: 1}}
	var clientB *libaudit.AuditClient
	if c.realNL != nil {
		clientB = &libaudit.AuditClient{Netlink: newRealNetlink(&simSocket{gb: gbB}, c.p.PortID+1, make([]byte, 16+8970), respWriter(c.p))}
	} else {
		clientB = &libaudit.AuditClient{Netlink: newStubNetlink(gbB, c.p.PortID+1)}
	}
	ledgerA0 := len(c.k.Ledger)
	sc.SysHandler = func(task int, req core.SysReq) core.SysResp {
		if req.B == 1 {
			return portB.sysHandler(task, req)
		}
		return c.port.sysHandler(task, req)
	}
	gb.set(&schedGate{sc: sc})
	L0 := len(c.k.Ledger)
	sfBefore := c.port.sendFailed
	closesBefore := c.closes
	type sendRec struct {
		op        KOp
		payload   []byte
		sb        *sendBuf
		seq       uint32
		err       bool
		call, ret int
	}
	sends := make([][]sendRec, len(c.p.Tasks))
	sharedBufs := map[int]*sendBuf{}
	for ti := range c.p.Tasks {
		ti := ti
		ops := c.p.Tasks[ti]
		sends[ti] = make([]sendRec, len(ops))
		for oi, op := range ops {
			if op.K == kSendRaw {
				sb := mkSendBuf(ti*100+oi+1000, int(op.A), op.E)
				if op.E&16 != 0 {
					// the same read-only slice handed to Send by several callers (possibly at the same time)
					if prev := sharedBufs[int(op.A)]; prev != nil {
						sb = prev
						c.res.Probes[kpSendSharedPayload]++
					}
					sharedBufs[int(op.A)] = sb
				}
				if cap(sb.live) > len(sb.live) {
					c.res.Probes[kpSendSpareCap]++
				}
				sends[ti][oi] = sendRec{op: op, payload: sb.pristine, sb: sb}
			}
		}
		sc.Go("task"+strconv.Itoa(ti), func(t *core.Task) {
			for oi, op := range ops {
				opid := int64(ti*100 + oi)
				t.Yield("op")
				if c.p.Scenario == 16 {
					// setters on this task's own client (task 0: the run's client, task 1: the second one)
					if ti >= 2 || !(op.K >= kSetEnabled && op.K <= kSetPID) {
						continue
					}
					cl := c.client
					if ti == 1 {
						cl = clientB
					}
					h.Rec(evKCall, opid, int64(op.K), 0, 0, "")
					var err error
					switch op.K {
					case kSetEnabled:
						err = cl.SetEnabled(op.A != 0, waitMode(op.NoWait))
					case kSetFailure:
						err = cl.SetFailure(failureModes[op.A%3], waitMode(op.NoWait))
					case kSetRateLimit:
						err = cl.SetRateLimit(op.A, waitMode(op.NoWait))
					case kSetBacklogLimit:
						err = cl.SetBacklogLimit(op.A, waitMode(op.NoWait))
					case kSetBacklogWaitTime:
						err = cl.SetBacklogWaitTime(int32(op.A), waitMode(op.NoWait))
					default:
						err = cl.SetRateLimit(op.A, waitMode(op.NoWait))
					}
					e := int64(0)
					if err != nil {
						e = 1
					}
					h.Rec(evKRet, opid, e, 0, 0, "")
					continue
				}
				switch op.K {
				case kClose:
					h.Rec(evKCall, opid, int64(op.K), 0, 0, "")
					err := c.client.Close()
					e := int64(0)
					if err != nil {
						e = 1
					}
					h.Rec(evKRet, opid, e, 0, 0, "")
				case kRecvRaw:
					// a kernel datagram arrives on this task's client and is read with AuditClient.Receive
					if c.realNL == nil || clientB == nil || ti >= 2 {
						continue // one receiver per client: a client has a single read buffer
					}
					cl, port := c.client, int64(0)
					if ti%2 == 1 {
						cl, port = clientB, 1
					}
					n := int(op.A)
					if n < 16 {
						n = 16
					}
					data := sendPayload(ti*1000+oi+77, n)
					putU32(data[0:], uint32(n))
					putU16(data[4:], uint16(1300+ti*10+oi))
					t.Sys(core.SysReq{Op: sysInject, B: port, Data: data})
					h.Rec(evKCall, opid, int64(op.K), 0, 0, "")
					m, err := cl.Receive(true)
					bad := ""
					switch {
					case err != nil:
						bad = "Receive failed on a kernel datagram: " + err.Error()
					case m == nil:
						bad = "Receive returned nil without error"
					case int(m.Type) != int(getU16(data[4:])):
						bad = fmt.Sprintf("Receive returned type %d, the datagram read by this client has type %d", m.Type, getU16(data[4:]))
					case !bytes.Equal(m.Data, data[16:]):
						bad = fmt.Sprintf("Receive returned %d payload bytes that are not the %d bytes of the datagram read by this client", len(m.Data), n-16)
					}
					h.Rec(evKRet, opid, 0, 0, 0, bad)
				case kSendRaw:
					if c.realNL == nil {
						continue
					}
					h.Rec(evKCall, opid, int64(op.K), 0, 0, "")
					seq, err := c.realNL.Send(syscall.NetlinkMessage{
						Header: syscall.NlMsghdr{Type: uint16(op.C), Flags: uint16(op.B), Pid: sendPid(op)},
						Data:   sends[ti][oi].sb.live,
					})
					e := int64(0)
					if err != nil {
						e = 1
					}
					h.Rec(evKRet, opid, e, int64(seq), 0, "")
				}
			}
		})
	}
	setAuto(c.p.Auto, c.p.AutoSalt)
	setActiveSched(sc)
	verdict := sc.Run()
	setActiveSched(nil)
	setAuto(0, 0)
	gb.set(&directGate{c.port})
	c.res.SchedHash = sc.SchedHash
	c.res.Steps += sc.Steps
	c.res.Probes[kpConcurrentCloseBlockedInOnce] += sc.LockBlocks + sc.KeyWaits
	evs := h.Events()
	if c.trace {
		for _, e := range evs {
			switch e.K {
			case evKCall:
				c.tr("step %d task %d: call op#%d %s", e.Step, e.Task, e.A, kopNames[e.B])
			case evKRet:
				c.tr("step %d task %d: return op#%d err=%d seq=%d", e.Step, e.Task, e.A, e.B, e.C)
			}
		}
		for _, r := range c.k.Ledger[L0:] {
			c.tr("    kernel saw type=%d flags=%#x seq=%d pid=%d len=%d payload=%d bytes %s", r.Type, r.Flags, r.Seq, r.Pid, r.Len, len(r.Payload), r.Malformed)
		}
	}
	c.mix(h.Hash64())
	switch verdict {
	case core.VerdictDeadlock:
		core.AbandonDeadlock(core.Violation{Property: c.prop, Kind: "deadlock", Class: "lock", Detail: "every unfinished task is blocked on a lock: " + sc.Describe()}, c.res.Trace)
	case core.VerdictStuck:
		core.AbandonInternal("simulator stuck: " + sc.Describe())
	case core.VerdictStepCap:
		core.AbandonDeadlock(core.Violation{Property: c.prop, Kind: "no-termination", Class: "steps", Detail: "step cap reached: " + sc.Describe()}, c.res.Trace)
	}
	for _, t := range sc.Tasks {
		if t.Panic != "" {
			c.viol("panic", "task", "task %s panicked: %s", t.Name, t.Panic)
		}
	}
	switch c.p.Scenario {
	case 16:
		// each client was used by one task only: its ledger holds that task's requests in order
		c.res.Probes[kpTwoClientSet]++
		ledgers := [][]*kern.Request{c.k.Ledger[ledgerA0:], portB.k.Ledger}
		for ti := 0; ti < 2 && ti < len(c.p.Tasks); ti++ {
			var done []KOp
			for oi, op := range c.p.Tasks[ti] {
				if !(op.K >= kSetEnabled && op.K <= kSetPID) {
					continue
				}
				if op.K == kSetImmutable || op.K == kSetPID {
					op = KOp{K: kSetRateLimit, A: op.A, NoWait: op.NoWait}
				}
				_ = oi
				done = append(done, op)
			}
			if len(ledgers[ti]) != len(done) {
				c.viol("setter-datagrams", "concurrent", "task %d issued %d setters on its own client, its socket saw %d datagrams", ti, len(done), len(ledgers[ti]))
				continue
			}
			for j, op := range done {
				c.judgeWire(1000+ti*100+j, op, ledgers[ti][j:j+1], nil, nil)
			}
		}
	case 17:
		c.res.Faults[kfConcClose] += len(c.p.Tasks)
		ncalls, nerr := 0, 0
		for _, e := range evs {
			if e.K == evKCall {
				ncalls++
			}
			if e.K == evKRet && e.B != 0 {
				nerr++
			}
		}
		c.closes += ncalls
		if ncalls == 0 {
			return
		}
		reqs := c.k.Ledger[L0:]
		sendFailed := c.port.sendFailed > sfBefore
		if sendFailed {
			c.res.Probes[kpSendErrno]++
			if nerr > 1 {
				c.viol("close-error", "Close", "the PID-clearing send failed once but %d of %d concurrent Close calls returned an error", nerr, ncalls)
			}
			nerr = 0
		} else if closesBefore == 0 {
			c.judgeFirstCloseTraffic(reqs)
		} else if len(reqs) != 0 {
			c.viol("close-traffic", "Close", "Close calls after the first sent %d more requests", len(reqs))
		}
		if c.k.Closes != 1 {
			c.viol("socket-closes", strconv.Itoa(c.k.Closes), "%d Close calls (%d of them concurrent) closed the socket %d times", c.closes, ncalls, c.k.Closes)
		}
		if nerr != 0 && c.port.closeFailed == 0 {
			c.viol("close-error", "Close", "%d of %d concurrent Close calls returned an error", nerr, ncalls)
		}
		if nerr > 1 {
			c.viol("close-error", "Close", "close(2) failed once but %d of %d concurrent Close calls returned an error", nerr, ncalls)
		}
		if c.port.closeFailed > 0 {
			c.res.Probes[kpCloseErrno]++
		}
	case 18:
		c.res.Faults[kfConcSend] += len(c.p.Tasks)
		// collect the Send history
		var ops []porcupine.Operation
		callAt := map[int64]int{}
		for idx, e := range evs {
			switch e.K {
			case evKCall:
				callAt[e.A] = idx
			case evKRet:
				ti, oi := int(e.A)/100, int(e.A)%100
				if c.p.Tasks[ti][oi].K == kRecvRaw {
					c.res.Probes[kpTwoClientRecv]++
					if e.S != "" {
						c.viol("receive-concurrent-clients", "Receive", "two independent clients receiving in different tasks: %s", e.S)
					}
					continue
				}
				sr := &sends[ti][oi]
				sr.seq = uint32(e.C)
				sr.err = e.B != 0
				sr.call, sr.ret = callAt[e.A], idx
				ops = append(ops, porcupine.Operation{ClientId: ti, Input: e.A, Call: int64(callAt[e.A]), Output: uint32(e.C), Return: int64(idx)})
			}
		}
		overlap := false
		for a := range ops {
			for b := range ops {
				if a != b && ops[a].Call < ops[b].Call && ops[b].Call < ops[a].Return {
					overlap = true
				}
			}
		}
		if overlap {
			c.res.Probes[kpSendConcurrentOverlap]++
		}
		base := c.p.SeqStart
		if len(c.sentSeqs) > 0 {
			base = c.sentSeqs[len(c.sentSeqs)-1]
		}
		// a counter: every call returns a number after the one returned by the
		// call linearised before it (increasing as a uint32 that rolls over)
		model := porcupine.Model{
			Init: func() interface{} { return base },
			Step: func(state, input, output interface{}) (bool, interface{}) {
				s := state.(uint32)
				o := output.(uint32)
				return int32(o-s) > 0, o
			},
		}
		if len(ops) > 0 && len(ops) <= 40 {
			c.res.Probes[kpPorcupineChecked]++
			if r := porcupine.CheckOperationsTimeout(model, ops, 20*time.Second); r == porcupine.Illegal {
				var seqs []string
				for _, o := range ops {
					seqs = append(seqs, fmt.Sprintf("task%d:[%d,%d]->%d", o.ClientId, o.Call, o.Return, o.Output))
				}
				c.viol("send-seq-not-linearizable", "Send", "sequence numbers returned by concurrent Send calls are not a linearizable counter starting after %d: %v", base, seqs)
			}
		}
		for ti := range sends {
			for oi := range sends[ti] {
				sr := &sends[ti][oi]
				if sr.op.K != kSendRaw || sr.ret == 0 && sr.call == 0 && sr.seq == 0 {
					continue
				}
				c.judgeSendWire(sr.op, sr.payload, sr.seq, sr.err, c.k.Ledger[L0:])
				if !sr.sb.intact() {
					c.viol("send-modified-caller-payload", "Send", "Send(payload %d bytes, capacity %d) changed the caller's payload bytes", len(sr.sb.live), cap(sr.sb.live))
				}
			}
		}
	}
}

// sendBuf is a payload slice as a caller may hold it: possibly cut out of a
// larger buffer, possibly with spare capacity behind it, possibly sent more
// than once. pristine is what the caller put there.
type sendBuf struct {
	live     []byte
	pristine []byte
	big      []byte
	pre      int
}

var spareClasses = []int{0, 1, 15, 16, 17, 64, 4096, 9000}

func mkSendBuf(tag, n int, shape uint32) *sendBuf {
	content := sendPayload(tag, n)
	spare := spareClasses[shape&7]
	pre := 0
	if shape&8 != 0 {
		pre = 24
	}
	big := make([]byte, pre+n+spare)
	for i := range big {
		big[i] = 0x5A
	}
	copy(big[pre:], content)
	return &sendBuf{live: big[pre : pre+n : pre+n+spare], pristine: content, big: big, pre: pre}
}

// intact reports whether the caller's bytes (the slice itself and what lies
// in front of it in the caller's buffer) are as the caller left them.
func (b *sendBuf) intact() bool {
	if !bytes.Equal(b.live, b.pristine) {
		return false
	}
	for _, x := range b.big[:b.pre] {
		if x != 0x5A {
			return false
		}
	}
	return true
}

func sendPayload(tag int, n int) []byte {
	b := make([]byte, n)
	x := uint64(tag)
	for i := range b {
		x = core.SplitMix64(x)
		b[i] = byte(x)
	}
	return b
}

// ---------- C18: framing ----------

// bigBuf: the status scenario reads into a buffer somewhat larger than the
// library's default (an application may), so that replies with more than 8970
// payload bytes - trailing bytes to be ignored - arrive whole.
func bigBuf(p *KPlan) int {
	if p.Scenario == 16 {
		return 160
	}
	return 0
}

// ownPidSentinel in KOp.D: the caller puts the process id of this very process
// into Header.Pid (plans are data and must not carry a process id).
const ownPidSentinel = int64(1) << 40

func sendPid(op KOp) uint32 {
	if op.D == ownPidSentinel {
		return uint32(os.Getpid())
	}
	return uint32(op.D)
}

func (c *kctx) execSendRaw(i int, op KOp) {
	if c.realNL == nil {
		return
	}
	sb := mkSendBuf(i+1, int(op.A), op.E)
	if op.E&16 != 0 && c.lastSend != nil && len(c.lastSend.live) == int(op.A) {
		sb = c.lastSend // the caller sends the slice it sent before once more
		c.res.Probes[kpSendSharedPayload]++
	}
	c.lastSend = sb
	if cap(sb.live) > len(sb.live) {
		c.res.Probes[kpSendSpareCap]++
	}
	payload := sb.live
	L0 := len(c.k.Ledger)
	s0 := c.port.sends
	var seq uint32
	var err error
	panicked := ""
	func() {
		defer func() {
			if r := recover(); r != nil {
				panicked = fmt.Sprint(r)
			}
		}()
		// whatever the caller left in the header's length and sequence fields (a message
		// that was received and is answered, a request struct used again) is not Send's input
		staleLen := []uint32{7, 0, 16, uint32(16 + len(payload)), uint32(15 + len(payload)), uint32(20 + len(payload)), 8986, 1 << 31}[(op.E>>5)&7]
		seq, err = c.realNL.Send(syscall.NetlinkMessage{Header: syscall.NlMsghdr{Type: uint16(op.C), Flags: uint16(op.B), Pid: sendPid(op), Len: staleLen, Seq: 99}, Data: payload})
	}()
	c.mix(uint64(seq)<<20 ^ uint64(op.A))
	c.tr("#%d Send type=%d flags=%#x pid=%d payload=%d bytes -> seq=%d err=%v", i, op.C, op.B, op.D, op.A, seq, err)
	if panicked != "" {
		c.viol("panic", "Send", "Send panicked: %s", panicked)
		return
	}
	if len(c.sentSeqs) > 0 && int32(seq-c.sentSeqs[len(c.sentSeqs)-1]) <= 0 {
		c.viol("send-seq-not-increasing", "Send", "Send returned sequence %d after %d", seq, c.sentSeqs[len(c.sentSeqs)-1])
	}
	c.sentSeqs = append(c.sentSeqs, seq)
	if !sb.intact() {
		c.viol("send-modified-caller-payload", "Send", "Send(payload %d bytes, capacity %d) changed the caller's payload bytes", len(sb.live), cap(sb.live))
	}
	payload = sb.pristine
	failed := s0 < len(c.p.SendErr) && c.p.SendErr[s0] != 0
	if failed {
		c.res.Probes[kpSendErrno]++
		c.res.Faults[kfSendErr]++
		if err == nil {
			c.viol("send-error-swallowed", "Send", "sendto failed with errno %d but Send returned nil", c.p.SendErr[s0])
		}
		return
	}
	c.judgeSendWire(op, payload, seq, err != nil, c.k.Ledger[L0:])
}

func (c *kctx) judgeSendWire(op KOp, payload []byte, seq uint32, failed bool, ledger []*kern.Request) {
	if failed {
		return
	}
	if op.A == 8970 {
		c.res.Probes[kpSendMaxPayload]++
	}
	if op.D != 0 {
		c.res.Probes[kpCallerPid]++
	}
	var found []*kern.Request
	for _, r := range ledger {
		if len(r.Wire) >= 16 && getU32(r.Wire[8:]) == seq {
			found = append(found, r)
		}
	}
	if len(found) != 1 {
		c.viol("send-wire-count", "Send", "Send returned sequence %d; %d datagrams with that sequence reached the socket", seq, len(found))
		return
	}
	w := found[0].Wire
	if found[0].Malformed == "destination is not the kernel" {
		c.viol("send-destination", "Send", "Send addressed the datagram to a non-kernel port id")
	}
	wantPid := sendPid(op)
	if wantPid == 0 {
		wantPid = c.p.PortID
	}
	if int(getU32(w[0:])) != 16+len(payload) || len(w) != 16+len(payload) {
		c.viol("send-length", "Send", "Send(payload %d bytes): header length %d, datagram length %d, want %d", len(payload), getU32(w[0:]), len(w), 16+len(payload))
		return
	}
	if getU16(w[4:]) != uint16(op.C) {
		c.viol("send-type", "Send", "type on the wire %d, caller gave %d", getU16(w[4:]), uint16(op.C))
	}
	if getU16(w[6:]) != uint16(op.B) {
		c.viol("send-flags", "Send", "flags on the wire %#x, caller gave %#x", getU16(w[6:]), uint16(op.B))
	}
	if getU32(w[12:]) != wantPid {
		c.viol("send-pid", "Send", "port id on the wire %d, want %d (socket port id %d, caller gave %d)", getU32(w[12:]), wantPid, c.p.PortID, op.D)
	}
	if !bytes.Equal(w[16:], payload) {
		c.viol("send-payload", "Send", "payload on the wire differs from the caller's %d bytes", len(payload))
	}
}

func (c *kctx) execRecvRaw(i int, op KOp) {
	n := int(op.A)
	data := sendPayload(int(op.C>>8)+7, n)
	if n >= 16 {
		// a plausible header so that length-trusting parsers have something to trust
		putU32(data[0:], uint32(n))
		if v := (op.C >> 19) & 15; v >= 8 {
			// the length field of audit datagrams is not to be trusted: the kernel has
			// written the payload length there, and a record cut by the read buffer
			// announces more than was received
			putU32(data[0:], []uint32{uint32(n) + 1, 8986, 1<<32 - 1, 0, uint32(n) - 16, 16, uint32(n) - 1, uint32(n) * 2}[v-8])
			c.res.Probes[kpRecvLenField]++
		}
		putU16(data[4:], uint16(1300+i))
		switch (op.C >> 23) & 3 {
		case 2:
			putU16(data[4:], uint16(op.C>>8)%8) // the netlink control types and their neighbours (NOOP, ERROR, DONE, OVERRUN, ...)
		case 3:
			putU16(data[4:], uint16(op.C>>9)) // any type
		}
		putU32(data[8:], 0)
		if (op.C>>27)&7 == 5 && n >= 48 {
			// the payload quotes a netlink header exactly where a second message of a
			// batch would start, and its length completes the datagram: still one
			// datagram, one message, everything after the first 16 bytes is payload
			first := 16 + 4*int((op.C>>19)%uint32((n-32)/4))
			putU32(data[0:], uint32(first))
			putU32(data[first:], uint32(n-first))
			putU16(data[first+4:], getU16(data[4:]))
			putU16(data[first+6:], 2)
			putU32(data[first+8:], 0)
			putU32(data[first+12:], 0)
			c.res.Probes[kpRecvLenField]++
		}
	}
	var fromPid uint32
	nonNL := false
	groups := (op.C >> 9) & 0xff
	if (op.C>>17)&1 == 0 {
		groups = 0
	}
	switch op.B {
	case 0:
		// the kernel, possibly as a multicast (port id 0, group mask set)
	case 1:
		fromPid = uint32(op.D)
		if fromPid == 0 {
			fromPid = 4000 + uint32(i)
		}
		c.res.Probes[kpRecvSpoofPid]++
		if groups != 0 {
			c.res.Probes[kpRecvSpoofMulticast]++
		}
		if fromPid >= 1<<31 {
			c.res.Probes[kpRecvSpoofHighPid]++
		}
	case 2:
		nonNL = true
		c.res.Probes[kpRecvNonNetlink]++
	}
	if n < 16 {
		c.res.Probes[kpRecvShort]++
	}
	if c.lastRecvLen > n && n > 0 {
		c.res.Probes[kpRecvStaleTail]++
	}
	c.lastRecvLen = n
	for _, d := range c.k.Queue {
		d.Consumed = true // replies to earlier Send operations are not what this operation is about
	}
	c.k.Inject(data, fromPid, nonNL).Groups = groups
	via := op.C & 1
	// op.E: bit 0 a blocking read, bits 1-2 so many reads are interrupted by a
	// signal (EINTR) before the datagram is handed over; the caller reads again
	blocking := op.E&1 == 1
	intr := int(op.E>>1) & 3
	if intr > 2 {
		intr = 2
	}
	if via != 0 || c.realNL == nil {
		blocking = false // AuditClient.Receive has its own parameter; the stub has no read flags
	}
	if intr > 0 {
		c.port.intrNext = intr
		c.res.Probes[kpRecvIntr]++
	}
	var gotType int = -1
	var gotData []byte
	var parserBuf []byte
	parserCalled := false
	var err error
	panicked := ""
	attempt := func() {
		defer func() {
			if r := recover(); r != nil {
				panicked = fmt.Sprint(r)
			}
		}()
		if via == 0 && c.realNL != nil {
			var msgs []syscall.NetlinkMessage
			msgs, err = c.realNL.Receive(!blocking, func(b []byte) ([]syscall.NetlinkMessage, error) {
				parserCalled = true
				parserBuf = append([]byte(nil), b...)
				if len(b) < 16 {
					if (op.C>>18)&1 == 1 {
						// a lenient parser (like syscall.ParseNetlinkMessage on a
						// few stray bytes): Receive itself must refuse the datagram
						return nil, nil
					}
					return nil, errors.New("short")
				}
				return []syscall.NetlinkMessage{{Header: syscall.NlMsghdr{Type: getU16(b[4:])}, Data: b[16:]}}, nil
			})
			if len(msgs) > 0 {
				gotType = int(msgs[0].Header.Type)
				gotData = append([]byte(nil), msgs[0].Data...)
			}
		} else {
			var m *libaudit.RawAuditMessage
			m, err = c.client.Receive(true)
			if m != nil {
				gotType = int(m.Type)
				gotData = append([]byte(nil), m.Data...)
			}
		}
	}
	for a := 0; a < 4; a++ {
		f0 := c.port.intrFired
		attempt()
		if panicked != "" || err == nil || gotType != -1 || c.port.intrFired == f0 {
			break // anything but "this read was interrupted": the caller does not read again
		}
	}
	c.port.intrNext = 0
	c.mix(uint64(n)<<16 ^ uint64(op.B)<<8 ^ uint64(via) ^ uint64(op.E)<<24)
	if err != nil {
		c.mix(0xe44)
	}
	c.tr("#%d Receive of a %d-byte datagram (sender mode %d, via %d, transport %d) -> err=%v type=%d data=%d bytes", i, n, op.B, via, c.p.Transport, err, gotType, len(gotData))
	if panicked != "" {
		c.viol("panic", "Receive", "Receive panicked on a %d-byte datagram: %s", n, panicked)
		return
	}
	_ = parserCalled
	real := c.realNL != nil
	mustFail := n < 16 || (real && (op.B == 1 || op.B == 2))
	if mustFail {
		if err == nil || gotType != -1 {
			why := "shorter than a netlink header"
			if n >= 16 {
				why = "not sent by the kernel"
			}
			c.viol("receive-accepted-bad-datagram", map[uint32]string{0: "short", 1: "foreign-port", 2: "non-netlink"}[op.B], "Receive returned data (type %d, %d bytes, err=%v) for a %d-byte datagram that is %s", gotType, len(gotData), err, n, why)
		}
		return
	}
	if err != nil {
		c.viol("receive-rejected-kernel-datagram", "Receive", "Receive failed (%v) on a %d-byte datagram from the kernel", err, n)
		return
	}
	if gotType != int(getU16(data[4:])) {
		c.viol("receive-type", "Receive", "Receive returned type %d, the datagram header says %d", gotType, getU16(data[4:]))
	}
	if !bytes.Equal(gotData, data[16:]) {
		c.viol("receive-payload", "Receive", "Receive returned %d payload bytes that differ from the %d bytes after the header of the datagram", len(gotData), n-16)
	}
	if via == 0 && real && !bytes.Equal(parserBuf, data) {
		c.viol("receive-parser-input", "Receive", "the parser was handed %d bytes, the datagram has %d", len(parserBuf), n)
	}
}
