package engines

import (
	"strconv"

	"verifsim/core"
	"verifsim/kern"
)

func itoaI(n int) string    { return strconv.Itoa(n) }
func quote(s string) string { return strconv.Quote(s) }
func containsStr(s, sub string) bool {
	if sub == "" {
		return false
	}
	for i := 0; i+len(sub) <= len(s); i++ {
		if s[i:i+len(sub)] == sub {
			return true
		}
	}
	return false
}

// client operation kinds
const (
	kGetStatus = iota
	kGetRules
	kAddRule
	kDeleteRule
	kDeleteRules
	kSetEnabled
	kSetImmutable
	kSetFailure
	kSetRateLimit
	kSetBacklogLimit
	kSetBacklogWaitTime
	kSetPID
	kWaitAcks
	kClose
	kFromWire // AuditStatus.FromWireFormat on a raw buffer (C16)
	kRecvRaw  // inject a datagram, then NetlinkClient.Receive / AuditClient.Receive (C18)
	kSendRaw  // NetlinkClient.Send with arbitrary header (C18)
	kSleep
	nKOps
)

var kopNames = []string{"GetStatus", "GetRules", "AddRule", "DeleteRule", "DeleteRules", "SetEnabled", "SetImmutable", "SetFailure",
	"SetRateLimit", "SetBacklogLimit", "SetBacklogWaitTime", "SetPID", "WaitForPendingACKs", "Close", "FromWireFormat", "Receive", "Send", "sleep"}

// KOp is one client operation.
type KOp struct {
	K      int    `json:"k"`
	A      uint32 `json:"a,omitempty"`      // numeric argument (value, bool, failure-mode index, rule id, buffer length)
	NoWait bool   `json:"nowait,omitempty"` // WaitMode NoWait for setters
	B      uint32 `json:"b,omitempty"`      // second argument (flags/pid for Send, sender pid / mode for Receive, fill for FromWire)
	C      uint32 `json:"c,omitempty"`      // third argument (type for Send, variant for Receive)
	D      int64  `json:"d,omitempty"`      // sleep ns; caller-supplied port id for Send
	E      uint32 `json:"e,omitempty"`      // Send: shape of the caller's payload slice (bits 0-2 spare capacity class, bit 3 sub-slice of a larger buffer, bit 4 send the previous slice of this length again)
}

// KPlan is a plan of the client engine (E3).
type KPlan struct {
	Scenario  int      `json:"scenario"`  // 8, 16, 17, 18
	Transport int      `json:"transport"` // 0 stub Netlink field, 1 real NetlinkClient over SimSocket
	ReplySize int      `json:"reply_size"`
	Status    []uint32 `json:"init_status,omitempty"`
	InitRules []uint32 `json:"init_rules,omitempty"` // rule ids installed before the run
	PortID    uint32   `json:"port_id"`
	// Preload: so many ordinary, fault-free commands are issued on the client
	// before the plan's operations (what a long-lived client has behind it).
	// PreStyle picks the mix: 0 GetStatus, 1 synchronous setters, 2 NoWait setters
	// then one WaitForPendingACKs, 3 a cycle of all commands, 4 like 3 with 1..3
	// audit records ahead of every reply.
	Resp     bool            `json:"resp_writer,omitempty"` // the real NetlinkClient is given a writer for raw responses (transport 1)
	Preload  int             `json:"preload,omitempty"`
	PreStyle int             `json:"pre_style,omitempty"`
	SeqStart uint32          `json:"seq_start,omitempty"` // sequence number the transport used last (fast-forward towards the uint32 wrap)
	Ops      []KOp           `json:"ops"`
	Tasks    [][]KOp         `json:"tasks,omitempty"` // concurrent phase (closers / senders)
	Faults   []kern.ReqFault `json:"faults,omitempty"`
	Recv     []KRecv         `json:"recv,omitempty"`
	SendErr  []int           `json:"send_errno,omitempty"`
	CloseErr []int           `json:"close_errno,omitempty"`     // errno reported by the n-th close(2) on the socket
	RecvHard []int           `json:"recv_enobufs_at,omitempty"` // receive calls (ordinal over the run) that fail hard with ENOBUFS
	Tape     []uint16        `json:"tape,omitempty"`
	Strategy int             `json:"strategy,omitempty"`
	Auto     uint32          `json:"auto_density,omitempty"` // statement-level pre-emption in the concurrent phase
	AutoSalt uint32          `json:"auto_salt,omitempty"`
}

func (p *KPlan) Valid() bool {
	if !(p.Scenario == 8 || p.Scenario == 16 || p.Scenario == 17 || p.Scenario == 18) {
		return false
	}
	if p.Preload < 0 || p.Preload > 70000 || p.PreStyle < 0 || p.PreStyle > 4 || (p.Preload > 0 && p.Scenario == 18 && p.PreStyle > 2) {
		return false
	}
	if p.Transport < 0 || p.Transport > 1 || p.ReplySize < 0 || p.ReplySize > 80 || len(p.Ops) > 250 || len(p.Tasks) > 4 {
		return false
	}
	for _, f := range p.Faults {
		if f.Spoof != 0 && p.Transport != 1 {
			return false // the sender check lives in the real NetlinkClient
		}
	}
	if (p.Scenario == 8 || p.Scenario == 17) && p.ReplySize < 32 {
		return false // every supported kernel sends at least the 2.6.32 layout
	}
	if p.Scenario != 16 && p.Scenario != 18 {
		for _, f := range p.Faults {
			if f.DataTrunc != 0 || f.DataPad != 0 || (f.AckShort != 0 && p.Scenario != 8 && !(p.Scenario == 17 && f.AckShort > 20)) {
				return false // malformed datagrams belong to the C16 / C18 scenarios (a truncated ACK also to C08)
			}
			if f.Spoof != 0 && !(p.Scenario == 8 && p.Transport == 1) {
				return false // a forged reply ahead of the real one needs the real NetlinkClient's sender check
			}
			if f.AckType != 0 && p.Scenario != 8 && p.Scenario != 17 {
				return false
			}
			if f.DataFirst && p.Scenario != 8 {
				return false // a reply ahead of its ACK is judged (relaxed) by the C08 and C16 scenarios only
			}
		}
	}
	if len(p.RecvHard) > 0 && p.Scenario != 8 && p.Scenario != 16 && p.Scenario != 17 {
		return false
	}
	if p.Scenario == 16 && len(p.Tasks) > 0 && len(p.SendErr) > 0 {
		return false // the two-client setter tasks are judged by counting datagrams per socket
	}
	for _, n := range p.RecvHard {
		if n < 0 {
			return false
		}
	}
	if p.Scenario == 17 {
		for _, f := range p.Faults {
			if f.Stale || f.DelayNs > 2e9 {
				return false
			}
		}
	}
	for _, r := range p.Recv {
		if r.N < 0 || r.N > 9 {
			return false
		}
	}
	delay := false
	for _, f := range p.Faults {
		if f.Errno < 0 || f.Errno > 4095 || f.UnsolBefore < 0 || f.UnsolAfter < 0 || f.UnsolMid < 0 || f.UnsolBefore > 6 || f.UnsolAfter > 6 || f.UnsolMid > 6 {
			return false
		}
		if f.DelayNs < 0 || (f.DelayNs > 450e6 && p.Scenario != 17) || f.DataTrunc < 0 || f.DataPad < 0 || f.AckShort < 0 || f.Spoof < 0 || f.Spoof > 2 || f.AckShort > 36 || f.SpoofLen < 0 || f.SpoofLen > 96 || (f.SpoofLen != 0 && f.SpoofLen < 16) || ((f.SpoofLen != 0 || f.SpoofMid) && f.Spoof == 0) {
			return false
		}
		if f.DelayNs > 0 {
			delay = true
		}
	}
	if delay {
		// natural EAGAIN while a reply is delayed plus scripted failures must
		// stay within 9 in a row: delay plans carry no receive script.
		for _, r := range p.Recv {
			if r.N != 0 {
				return false
			}
		}
	}
	check := func(ops []KOp) bool {
		for _, o := range ops {
			if o.K < 0 || o.K >= nKOps || o.D < 0 {
				return false
			}
			if o.K == kSetFailure && o.A > 2 {
				return false
			}
			if (o.K == kAddRule || o.K == kDeleteRule) && o.A > 42 {
				return false
			}
			if o.K == kSendRaw && o.A > 8970 {
				return false
			}
			if o.K == kFromWire && o.A > 96 {
				return false
			}
			if o.K == kRecvRaw && o.A > 9000 {
				return false
			}
		}
		return true
	}
	if !check(p.Ops) {
		return false
	}
	for _, t := range p.Tasks {
		if !check(t) || len(t) > 40 {
			return false
		}
	}
	return true
}

// ruleBytes is the opaque payload of rule id n (the kernel treats rules as
// byte strings; lengths vary so that buffer reuse shows).
func ruleBytes(id uint32) []byte {
	if id == 41 {
		return nil // a caller with nothing in its hands: the kernel is asked all the same, and refuses
	}
	if id == 42 {
		return []byte{}
	}
	n := 8 + int(id*7)%90
	if id >= 30 {
		// rules as large as a message may be: requests (and the error ACKs that echo
		// them) around the size of the 8986-byte read buffer
		n = []int{8930, 8933, 8934, 8935, 8949, 8950, 8951, 8966, 8969, 8970, 4000}[(id-30)%11]
	}
	b := make([]byte, n)
	for i := range b {
		b[i] = byte(0x10 + (int(id)*31+i*7)%0xC0)
	}
	putU32(b, id+1)
	return b
}

var boundaryU32 = []uint32{0, 1, 2, 63, 64, 8192, 1<<31 - 1, 1 << 31, 1<<32 - 1, 0x01020304, 0xA1B2C3D4}

// ruleID draws a rule id: mostly one of twelve small rules, now and then a very large one.
func ruleID(r *core.Rng) uint32 {
	if r.Chance(1, 10) {
		return uint32(r.Range(30, 40))
	}
	if r.Chance(1, 25) {
		return uint32(r.Range(41, 42)) // nil / empty rule
	}
	return uint32(r.Intn(12))
}

func genFaults(r *core.Rng, n int, p *KPlan, errnoPct, unsolPct, stalePct, delayPct int) {
	for i := 0; i < n; i++ {
		var f kern.ReqFault
		if r.Chance(errnoPct, 100) {
			f.Errno = core.Pick(r, 1, 2, 4, 11, 12, 13, 16, 17, 22, 28, 95, 105, 133, r.Range(1, 133))
			if r.Chance(1, 12) {
				// the kernel's errno space ends at MAX_ERRNO (4095); kernel-internal codes above 255 do reach netlink ACKs
				f.Errno = core.Pick(r, 255, 256, 257, 512, 516, 524, 768, 4095, r.Range(134, 4095))
			}
			if (p.Scenario == 8 || p.Scenario == 17) && r.Chance(1, 20) {
				// the refusal arrives with a netlink type other than NLMSG_ERROR (NOOP, DONE, OVERRUN, an audit type)
				f.AckType = core.Pick[uint16](r, 1, 3, 4, 1000, 1001, 1300)
			}
		}
		if r.Chance(unsolPct, 100) {
			f.UnsolBefore = r.Intn(4)
		}
		if r.Chance(unsolPct, 100) {
			f.UnsolAfter = r.Intn(4)
		}
		if r.Chance(unsolPct, 100) {
			f.UnsolMid = r.Intn(3)
		}
		if r.Chance(stalePct, 100) {
			f.Stale = true
		}
		if r.Chance(delayPct, 100) {
			f.DelayNs = core.Pick[int64](r, 1, 50e6-1, 50e6, 50e6+1, 200e6, 449_999_999, 450e6)
		}
		p.Faults = append(p.Faults, f)
	}
}

func genRecv(r *core.Rng, n int, p *KPlan, pct int) {
	for i := 0; i < n; i++ {
		var k KRecv
		if r.Chance(pct, 100) {
			k.N = core.Pick(r, 1, 1, 2, 3, 5, 8, 9, 9)
			k.Kinds = uint16(r.Intn(1 << 9))
			if r.Chance(1, 4) {
				k.Kinds = 0 // all EAGAIN
			} else if r.Chance(1, 4) {
				k.Kinds = 0x1ff // all EINTR
			}
		}
		p.Recv = append(p.Recv, k)
	}
}

// genSendErr makes some sendto calls fail (ENOBUFS, ECONNREFUSED, EPERM, EINTR).
func genSendErr(r *core.Rng, n int, p *KPlan) {
	for i := 0; i < n; i++ {
		e := 0
		if r.Chance(1, 5) {
			e = core.Pick(r, 105, 111, 1, 4, 90, 12, 11)
		}
		p.SendErr = append(p.SendErr, e)
	}
}

func genSetter(r *core.Rng) KOp {
	op := KOp{}
	switch r.Intn(7) {
	case 0:
		op.K = kSetEnabled
		op.A = uint32(r.Intn(2))
	case 1:
		op.K = kSetFailure
		op.A = uint32(r.Intn(3))
	case 2:
		op.K = kSetRateLimit
		op.A = core.Pick(r, append(boundaryU32, r.U32())...)
	case 3:
		op.K = kSetBacklogLimit
		op.A = core.Pick(r, append(boundaryU32, r.U32())...)
	case 4:
		op.K = kSetBacklogWaitTime
		op.A = core.Pick(r, append(boundaryU32, r.U32(), 60000, 600000, 600001)...)
	case 5:
		op.K = kSetPID
	default:
		op.K = kSetImmutable
		if r.Chance(3, 4) { // immutability ends most of a run, keep it rarer
			op.K = kSetBacklogLimit
			op.A = r.U32()
		}
	}
	return op
}

func genInit(r *core.Rng, p *KPlan) {
	p.ReplySize = core.Pick(r, 32, 36, 40, 44, 44, 44, 48, 52, 64)
	p.PortID = core.Pick(r, uint32(1), 4711, 1<<31, 1<<32-1, r.U32()|1)
	p.Transport = r.Intn(2)
	p.Resp = p.Transport == 1 && r.Chance(1, 3)
	if r.Chance(1, 10) {
		p.SeqStart = uint32(1<<32 - r.Range(1, 12)) // the counter wraps during this run
	}
	if r.Chance(1, 1500) {
		p.Preload = core.Pick(r, 300, 600, 1100, 2100, 4200, 9000, 17000, 33000, 66000, 70000)
		p.PreStyle = r.Intn(5)
	}
	if r.Chance(1, 2) {
		p.Status = make([]uint32, kern.NWords)
		for i := range p.Status {
			p.Status[i] = core.Pick(r, append(boundaryU32, r.U32())...)
		}
		p.Status[kern.WEnabled] = uint32(core.Pick(r, 0, 1, 1, 1, 2))
		p.Status[kern.WFailure] = uint32(r.Intn(3))
	}
	for k := r.Intn(5); k > 0; k-- {
		id := ruleID(r)
		if id > 40 {
			id = 3 // the kernel's list never holds an empty rule
		}
		dup := false
		for _, x := range p.InitRules {
			if x == id {
				dup = true
			}
		}
		if !dup {
			p.InitRules = append(p.InitRules, id)
		}
	}
}

// GenKPlanC08: command sequences against a kernel that injects verdicts,
// unsolicited records, transient receive failures, delays and stale replies.
func GenKPlanC08(r *core.Rng) *KPlan {
	p := &KPlan{Scenario: 8}
	genInit(r, p)
	n := r.Range(1, core.Scale(10, false))
	if r.Chance(1, 20) {
		n = r.Range(20, 60) // long histories: thresholds, counters, buffers that grow
	}
	w := []int{15, 15, 15, 15, 8, 32}
	if r.Chance(1, 5) {
		w = []int{5, 35, 20, 20, 10, 10} // rule-heavy: dumps interleaved with changes of the rule list
	}
	for i := 0; i < n; i++ {
		switch r.Weighted(w...) {
		case 0:
			p.Ops = append(p.Ops, KOp{K: kGetStatus})
		case 1:
			p.Ops = append(p.Ops, KOp{K: kGetRules})
		case 2:
			p.Ops = append(p.Ops, KOp{K: kAddRule, A: ruleID(r)})
		case 3:
			p.Ops = append(p.Ops, KOp{K: kDeleteRule, A: ruleID(r)})
		case 4:
			p.Ops = append(p.Ops, KOp{K: kDeleteRules})
		default:
			p.Ops = append(p.Ops, genSetter(r))
		}
	}
	// swarm: which fault kinds are enabled in this run
	errnoPct := core.Pick(r, 0, 10, 30, 60)
	unsolPct := core.Pick(r, 0, 20, 50)
	stalePct := core.Pick(r, 0, 0, 0, 10)
	delayPct := 0
	recvPct := core.Pick(r, 0, 20, 50)
	if r.Chance(1, 5) {
		delayPct = core.Pick(r, 20, 50)
		recvPct = 0
	}
	genFaults(r, 3*n+6, p, errnoPct, unsolPct, stalePct, delayPct)
	if r.Chance(1, 6) {
		genSendErr(r, 3*n+4, p)
	}
	if r.Chance(1, 8) {
		// hard receive errors (ENOBUFS) at a few receive calls: inside a multi-part
		// reply they land after the ACK stage
		for k := r.Range(1, 3); k > 0; k-- {
			p.RecvHard = append(p.RecvHard, r.Intn(6*n+4))
		}
	}
	if r.Chance(1, 10) {
		// the ACK datagram is cut short (0..19 bytes): whatever the verdict was, it cannot be read
		for i := range p.Faults {
			if r.Chance(1, 4) {
				p.Faults[i].AckShort = 1 + r.Intn(20)
				if r.Chance(1, 3) {
					// an ACK that carries the errno and not (all of) the echoed request: 20..35 bytes
					p.Faults[i].AckShort = 1 + r.Range(20, 35)
				}
			}
		}
	}
	if r.Chance(1, 10) {
		// status replies that reach the socket ahead of their ACK (the kernel queues
		// them from a thread of its own), with 0..2 audit records in between
		for i := range p.Faults {
			if r.Chance(1, 3) {
				p.Faults[i].DataFirst = true
				p.Faults[i].UnsolMid = r.Intn(3)
			}
		}
	}
	if p.Transport == 1 && r.Chance(1, 8) {
		// a forged "success" ACK with the request's own sequence number, sent by
		// another netlink socket (or from a non-netlink address), ahead of the
		// kernel's real answer
		for i := range p.Faults {
			if r.Chance(1, 4) {
				p.Faults[i].Spoof = r.Range(1, 2)
				if r.Chance(1, 2) {
					// of another size than the kernel's ACK, and/or between the ACK and the reply
					p.Faults[i].SpoofLen = core.Pick(r, 16, 20, 24, 40, 60, 64, r.Range(16, 96))
					p.Faults[i].SpoofMid = r.Chance(1, 2)
				}
			}
		}
	}
	if recvPct > 0 {
		genRecv(r, 12*n, p, recvPct)
	}
	return p
}

// GenKPlanC16: every setter and GetStatus against every kernel version,
// truncations and over-long replies, plus FromWireFormat on raw buffers.
func GenKPlanC16(r *core.Rng) *KPlan {
	p := &KPlan{Scenario: 16}
	genInit(r, p)
	if r.Chance(1, 2) {
		p.Status = make([]uint32, kern.NWords)
		for i := range p.Status {
			p.Status[i] = r.U32()
		}
	}
	if r.Chance(1, 3) {
		if p.Status == nil {
			p.Status = make([]uint32, kern.NWords)
		}
		p.Status[kern.WFeatureBitmap] = 1 << uint(r.Intn(8))
	}
	n := r.Range(1, 10)
	w := []int{50, 25, 25}
	noWaitPct := 33
	if r.Chance(1, 12) {
		n = r.Range(18, 70) // long histories, mostly unacknowledged setters
		w = []int{85, 10, 5}
		noWaitPct = core.Pick(r, 50, 90, 100)
	}
	for i := 0; i < n; i++ {
		switch r.Weighted(w...) {
		case 0:
			op := genSetter(r)
			if op.K == kSetImmutable && r.Chance(1, 2) {
				op = KOp{K: kSetFailure, A: uint32(r.Intn(3))}
			}
			op.NoWait = r.Chance(noWaitPct, 100)
			p.Ops = append(p.Ops, op)
		case 1:
			p.Ops = append(p.Ops, KOp{K: kGetStatus})
		default:
			p.Ops = append(p.Ops, KOp{K: kFromWire, A: uint32(core.Pick(r, r.Intn(65), r.Intn(65), 31, 32, 33, 36, 40, 43, 44, 45, 48, 64, 96)), B: r.U32()})
		}
	}
	if r.Chance(1, 4) {
		// two independent clients, each driven by its own task, issue setters at the same time
		for t := 0; t < 2; t++ {
			var ops []KOp
			for k := r.Range(1, 4); k > 0; k-- {
				op := genSetter(r)
				if op.K == kSetImmutable || op.K == kSetPID {
					op = KOp{K: kSetRateLimit, A: r.U32()}
				}
				op.NoWait = r.Chance(1, 2)
				ops = append(ops, op)
			}
			p.Tasks = append(p.Tasks, ops)
		}
		p.Auto = core.Pick(r, uint32(0), 1, 1, 2, 3)
		p.AutoSalt = r.U32()
		for i := 0; i < 120; i++ {
			p.Tape = append(p.Tape, uint16(r.Intn(1<<16)))
		}
		p.Strategy = r.Intn(2)
	}
	for i := 0; i < n+4 && i < 40; i++ {
		var f kern.ReqFault
		if r.Chance(1, 3) {
			f.DataTrunc = 1 + r.Intn(65)
		}
		if r.Chance(1, 6) {
			f.DataPad = r.Intn(24)
			if r.Chance(1, 6) {
				f.DataPad = 8970 - 64 + r.Range(0, 120) // a reply around and beyond the largest audit message
			}
		}
		if r.Chance(1, 8) {
			f.UnsolBefore = r.Intn(3)
			f.UnsolAfter = r.Intn(3)
		}
		if r.Chance(1, 8) {
			// the status reply reaches the socket ahead of its ACK, with 0..2 audit records in between
			f.DataFirst = true
			f.UnsolMid = r.Intn(3)
		}
		if p.Transport == 1 && r.Chance(1, 10) {
			// a forged datagram from another netlink socket (or a non-netlink address) ahead of the
			// ACK or between the ACK and the status reply, of any size
			f.Spoof = r.Range(1, 2)
			f.SpoofLen = core.Pick(r, 0, 16, 20, 24, 40, 60, 64, r.Range(16, 96))
			f.SpoofMid = r.Chance(1, 2)
		}
		p.Faults = append(p.Faults, f)
	}
	if r.Chance(1, 8) {
		// a receive fails hard with ENOBUFS (the socket's queue overran) somewhere in the run
		for k := r.Range(1, 3); k > 0; k-- {
			p.RecvHard = append(p.RecvHard, r.Intn(3*n+4))
		}
	}
	if r.Chance(1, 6) && len(p.Tasks) == 0 {
		// transient receive failures (an empty poll between two datagrams)
		genRecv(r, 6*n, p, core.Pick(r, 20, 50))
	}
	if r.Chance(1, 8) && len(p.Tasks) == 0 {
		// some sendto calls fail (ENOBUFS, ECONNREFUSED, EPERM, EINTR); the commands after them are ordinary
		genSendErr(r, n+4, p)
	}
	return p
}

// GenKPlanC17: NoWait / WaitForReply mixes, WaitForPendingACKs, GetRules
// followed by traffic, repeated and concurrent Close.
func GenKPlanC17(r *core.Rng) *KPlan {
	p := &KPlan{Scenario: 17}
	genInit(r, p)
	n := r.Range(1, core.Scale(10, false))
	if r.Chance(1, 15) {
		n = r.Range(20, 60)
	}
	w := []int{45, 20, 10, 10, 5, 3}
	if r.Chance(1, 4) {
		w = []int{10, 5, 35, 20, 5, 25} // rule dumps interleaved with changes of the rule list
	}
	for i := 0; i < n; i++ {
		switch r.Weighted(w...) {
		case 5:
			p.Ops = append(p.Ops, KOp{K: kDeleteRule, A: ruleID(r)})
		case 0:
			op := genSetter(r)
			if op.K == kSetImmutable {
				op = KOp{K: kSetRateLimit, A: r.U32()}
			}
			op.NoWait = r.Chance(2, 3)
			p.Ops = append(p.Ops, op)
		case 1:
			p.Ops = append(p.Ops, KOp{K: kWaitAcks})
		case 2:
			p.Ops = append(p.Ops, KOp{K: kGetRules})
		case 3:
			p.Ops = append(p.Ops, KOp{K: kAddRule, A: ruleID(r)})
		default:
			p.Ops = append(p.Ops, KOp{K: kGetStatus})
		}
	}
	if r.Chance(1, 12) {
		// many requests in NoWait mode before anybody waits for their ACKs
		for k := core.Pick(r, 15, 16, 17, 18, 33, 65, 130); k > 0; k-- {
			op := genSetter(r)
			if op.K == kSetImmutable || op.K == kSetPID {
				op = KOp{K: kSetRateLimit, A: r.U32()}
			}
			op.NoWait = true
			p.Ops = append(p.Ops, op)
		}
		p.Ops = append(p.Ops, KOp{K: kWaitAcks})
	}
	if r.Chance(1, 3) {
		p.Ops = append(p.Ops, KOp{K: kWaitAcks})
		if r.Chance(1, 2) {
			p.Ops = append(p.Ops, KOp{K: kWaitAcks})
		}
	}
	// closing: sequential repeats and/or concurrent closers
	switch r.Intn(4) {
	case 0:
		for k := r.Range(1, 3); k > 0; k-- {
			p.Ops = append(p.Ops, KOp{K: kClose})
		}
	case 1, 2:
		nt := r.Range(2, 3)
		for t := 0; t < nt; t++ {
			var ops []KOp
			for k := r.Range(1, 2); k > 0; k-- {
				ops = append(ops, KOp{K: kClose})
			}
			p.Tasks = append(p.Tasks, ops)
		}
		if r.Chance(1, 3) {
			p.Ops = append(p.Ops, KOp{K: kClose})
		}
	}
	errnoPct := core.Pick(r, 0, 15, 40)
	unsolPct := core.Pick(r, 0, 20)
	genFaults(r, 2*n+8, p, errnoPct, unsolPct, 0, 0)
	if r.Chance(1, 4) {
		genSendErr(r, 2*n+4, p)
	}
	if r.Chance(1, 5) {
		// close(2) reports an error although the descriptor is gone (EINTR, EIO)
		for i := 0; i < 4; i++ {
			p.CloseErr = append(p.CloseErr, core.Pick(r, 4, 4, 5, 0))
		}
	}
	if r.Chance(1, 8) {
		// ACKs that arrive late: later than one whole WaitForPendingACKs call polls
		// (10 x 50 ms), or just inside it; whoever waits again later must get them
		for i := range p.Faults {
			if r.Chance(1, 3) {
				p.Faults[i].DelayNs = core.Pick[int64](r, 300e6, 450e6, 600e6, 1e9, 2e9)
			}
		}
		for i := 0; i < len(p.Ops); i++ {
			if p.Ops[i].K == kWaitAcks && r.Chance(1, 2) {
				p.Ops = append(p.Ops[:i+1:i+1], append([]KOp{{K: kWaitAcks}}, p.Ops[i+1:]...)...)
				i++
			}
		}
	} else if r.Chance(1, 3) {
		genRecv(r, 6*n, p, 20)
	}
	if r.Chance(1, 8) {
		// a receive fails hard with ENOBUFS (the socket's queue overran) somewhere in the run
		for k := r.Range(1, 2); k > 0; k-- {
			p.RecvHard = append(p.RecvHard, r.Intn(4*n+4))
		}
	}
	if r.Chance(1, 8) {
		// ACKs of 20..35 bytes: the errno without (all of) the echoed request
		for i := range p.Faults {
			if r.Chance(1, 2) {
				p.Faults[i].AckShort = 1 + r.Range(20, 35)
			}
		}
	}
	p.Auto = core.Pick(r, uint32(0), 0, 1, 2, 4)
	p.AutoSalt = r.U32()
	for i := 0; i < 60+int(p.Auto)*20; i++ {
		p.Tape = append(p.Tape, uint16(r.Intn(1<<16)))
	}
	p.Strategy = r.Intn(2)
	return p
}

// GenKPlanC18: framing of Send from 1-4 tasks and Receive of arbitrary
// datagrams, over the real NetlinkClient on SimSocket.
func GenKPlanC18(r *core.Rng) *KPlan {
	p := &KPlan{Scenario: 18, Transport: 1}
	p.ReplySize = 44
	p.Resp = r.Chance(1, 3)
	p.PortID = core.Pick(r, uint32(1), 4711, 1<<31, 1<<32-1, r.U32()|1)
	sendOp := func() KOp {
		ln := core.Pick(r, 0, 1, 3, 4, 5, 16, 44, r.Intn(300), r.Intn(8971), 8969, 8970)
		flags := core.Pick(r, uint32(1), 5, 0, 0x301, uint32(r.Intn(1<<16)))
		pid := uint32(0)
		if r.Chance(1, 4) {
			pid = core.Pick(r, uint32(1), 99, 1<<32-1, r.U32())
		}
		typ := core.Pick(r, uint32(1000), 1001, 1011, 1013, 3, 0, 65535, uint32(r.Intn(1<<16)))
		shape := uint32(0)
		if r.Chance(1, 2) {
			// the caller's slice has spare capacity (built with append, cut out of a larger buffer) and may be sent again
			shape = uint32(r.Intn(32))
		}
		if r.Chance(1, 2) {
			shape |= uint32(r.Intn(8)) << 5 // what the caller left in Header.Len
		}
		d := int64(pid)
		if r.Chance(1, 10) {
			d = ownPidSentinel // the caller's own process id, which is not this socket's port id
		}
		return KOp{K: kSendRaw, A: uint32(ln), B: flags, C: typ, D: d, E: shape}
	}
	recvOp := func() KOp {
		ln := core.Pick(r, r.Intn(65), r.Intn(65), 0, 15, 16, 17, 20, r.Intn(2000), 8986)
		mode := core.Pick(r, uint32(0), 0, 0, 1, 1, 2) // 0 kernel, 1 other port id, 2 non-netlink address
		via := uint32(r.Intn(2))                       // 0 NetlinkClient.Receive with a recording parser, 1 AuditClient.Receive
		// port id of a foreign sender: anything but 0, including the range >= 2^31
		// that the kernel assigns to a process's second and later sockets
		pid := core.Pick(r, uint32(1), 2, 4711, 1<<31-1, 1<<31, 1<<31+1, 1<<32-1, r.U32()|1, r.U32()|1<<31)
		e := uint32(0)
		if r.Chance(1, 3) {
			// a blocking read, and/or one or two reads interrupted by a signal before the datagram is handed over
			e = uint32(r.Intn(2)) | uint32(r.Intn(3))<<1
		}
		return KOp{K: kRecvRaw, A: uint32(ln), B: mode, C: via | r.U32()<<8, D: int64(pid), E: e}
	}
	n := r.Range(0, 8)
	for i := 0; i < n; i++ {
		if r.Chance(1, 3) {
			p.Ops = append(p.Ops, sendOp())
		} else {
			p.Ops = append(p.Ops, recvOp())
		}
	}
	if r.Chance(2, 3) {
		nt := r.Range(1, 4)
		recvTasks := r.Chance(1, 3) // tasks that receive on two independent clients
		for t := 0; t < nt; t++ {
			var ops []KOp
			for k := r.Range(1, 5); k > 0; k-- {
				if recvTasks && r.Chance(2, 3) {
					ops = append(ops, KOp{K: kRecvRaw, A: uint32(core.Pick(r, 16, 17, 40, r.Range(16, 300)))})
				} else {
					ops = append(ops, sendOp())
				}
			}
			p.Tasks = append(p.Tasks, ops)
		}
	}
	if r.Chance(1, 6) {
		for i := 0; i < 10; i++ {
			e := 0
			if r.Chance(1, 4) {
				e = core.Pick(r, 105, 111, 1, 90)
			}
			p.SendErr = append(p.SendErr, e)
		}
	}
	if r.Chance(1, 8) {
		p.SeqStart = uint32(1<<32 - r.Range(1, 6)) // the sequence counter wraps during this run
	}
	if r.Chance(1, 1500) {
		// a transport with a history: so many sends (style 0), receives (1), or datagrams parsed
		// by the audit parser for a transport that keeps what the parser returned (2)
		p.Preload = core.Pick(r, 300, 600, 1100, 2100, 4200, 9000, 17000, 33000, 66000, 70000)
		p.PreStyle = r.Intn(3)
	}
	p.Auto = core.Pick(r, uint32(0), 0, 1, 1, 2, 4)
	p.AutoSalt = r.U32()
	for i := 0; i < 80+int(p.Auto)*40; i++ {
		p.Tape = append(p.Tape, uint16(r.Intn(1<<16)))
	}
	p.Strategy = r.Intn(2)
	return p
}
