package engines

import (
	"fmt"
	"os"
	"testing"

	"verifsim/core"
)

func reasmSeqEngine(prop string, tilt int) *core.Engine[RPlan] {
	return &core.Engine[RPlan]{
		Property:   prop,
		Name:       "reasm-seq",
		Gen:        func(r *core.Rng) *RPlan { return GenRPlan(r, tilt) },
		Valid:      func(p *RPlan) bool { return p.Valid() },
		Exec:       ExecRPlan,
		ProbeNames: rProbeNames,
		FaultNames: rFaultNames,
		NontrivialRule: "a run is non-trivial when it pushes >= 3 records and the Stream receives >= 2 events; distinct = distinct hash of the full history " +
			"(every call with its virtual time, every callback with the ids it carried, every EventsLost count)",
		Components: map[string][]string{
			"real": {"libaudit.Reassembler (NewReassembler, PushMessage, Push, Maintain, Close)", "auparse.Parse (for Push)"},
			"stub": {"Stream (recording oracle)", "wall clock (testing/synctest virtual clock)", "kernel record stream (generated, with loss/duplication/reordering/delay faults)"},
		},
	}
}

// Dispatch runs the worker for the property named in the configuration.
func Dispatch(t *testing.T, cfg core.Config) {
	switch cfg.Property {
	case "C01":
		core.RunWorker(t, cfg, reasmSeqEngine("C01", 0))
	case "C02":
		core.RunWorker(t, cfg, reasmSeqEngine("C02", 2))
	case "C03":
		core.RunWorker(t, cfg, reasmSeqEngine("C03", 3))
	case "C10":
		core.RunWorker(t, cfg, reasmSeqEngine("C10", 10))
	case "C19":
		core.RunWorker(t, cfg, reasmSeqEngine("C19", 19))
	default:
		fmt.Fprintf(os.Stderr, "SIM-FATAL unknown property %q\n", cfg.Property)
		os.Exit(core.ExitInternal)
	}
}
