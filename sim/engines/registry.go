package engines

import (
	"fmt"
	"os"
	"testing"

	"verifsim/core"
)

func reasmSeqEngine(prop string, tilt int) *core.Engine[RPlan] {
	return &core.Engine[RPlan]{
		Property:   prop,
		Name:       "reasm-seq",
		Gen:        func(r *core.Rng) *RPlan { return GenRPlan(r, tilt) },
		Valid:      func(p *RPlan) bool { return p.Valid() },
		Exec:       ExecRPlan,
		ProbeNames: rProbeNames,
		FaultNames: rFaultNames,
		NontrivialRule: "a run is non-trivial when it pushes >= 3 records and the Stream receives >= 2 events; distinct = distinct hash of the full history " +
			"(every call with its virtual time, every callback with the ids it carried, every EventsLost count)",
		Components: map[string][]string{
			"real": {"libaudit.Reassembler (NewReassembler, PushMessage, Push, Maintain, Close)", "auparse.Parse (for Push)"},
			"stub": {"Stream (recording oracle)", "wall clock (testing/synctest virtual clock)", "kernel record stream (generated, with loss/duplication/reordering/delay faults)"},
		},
	}
}

func reasmConcEngine(prop string) *core.Engine[CPlan] {
	return &core.Engine[CPlan]{
		Property:        prop,
		Name:            "reasm-conc",
		Gen:             GenCPlan,
		GenFirst:        GenCPlanFirst,
		Valid:           func(p *CPlan) bool { return p.Valid() },
		Exec:            ExecCPlanFor(prop),
		ProbeNames:      cProbeNames,
		FaultNames:      cFaultNames,
		RaceIsViolation: prop == "C11",
		NontrivialRule: "a run is non-trivial when >= 2 tasks have operations, at least one context switch happened while another task was inside a " +
			"Reassembler call (at an internal yield point) and at least one message was delivered; distinct = distinct hash of the total-order history",
		Components: map[string][]string{
			"real": {"libaudit.Reassembler with -tags verif yield hooks between Put/CleanUp/Clear/callback", "auparse.Parse (Push)"},
			"stub": {"Stream (recording, may re-enter PushMessage/Maintain/Close)", "goroutine scheduling (seeded scheduler, one task released at a time)",
				"clock (synctest, scheduler-owned timers)", "Maintain ticker task (models cmd/auparse)"},
		},
		Assumptions: []string{"interleavings are explored at yield-point granularity; finer races are left to the race detector running with the scheduler's hand-offs hidden"},
	}
}

func clientEngine(prop string, gen func(*core.Rng) *KPlan, race bool) *core.Engine[KPlan] {
	return &core.Engine[KPlan]{
		Property:        prop,
		Name:            "client",
		Gen:             gen,
		Valid:           func(p *KPlan) bool { return p.Valid() },
		Exec:            ExecKPlan,
		ProbeNames:      kProbeNames,
		FaultNames:      kFaultNames,
		RaceIsViolation: race,
		Relevant:        func(n string) bool { return clientRelevant[prop][n] },
		NontrivialRule: "a run is non-trivial when the kernel saw >= 2 requests (C16: >= 2 operations, C18: >= 2 operations or tasks); distinct = distinct hash of " +
			"every call with its result, the number of datagrams the kernel saw and the receives it served, plus the concurrent phase's total-order history",
		Components: map[string][]string{
			"real": {"libaudit.AuditClient (all command methods, getReply retry loop, WaitForPendingACKs, Close)",
				"libaudit.NetlinkClient Send/Receive/Close over the verif socket seam (transport 1)", "AuditStatus wire (un)marshalling", "ParseNetlinkError"},
			"stub": {"kernel audit subsystem (SimKernel reference model with its own UAPI constants)", "socket system calls (SimSocket) or the exported Netlink field (transport 0)",
				"socket creation / bind / port-id discovery (not exercised)", "clock (synctest virtual time; the 50 ms back-off sleeps are virtual)"},
		},
		Assumptions: []string{"the simulated kernel sends the ACK before the data of a request, except under the 'status reply ahead of its ACK' fault (outside the property's quantifier), where a call may fail but must not return anything the kernel did not send",
			"NewNetlinkClient (socket/bind/getsockname) and a real kernel are not exercised"},
	}
}

func coalesceEngine() *core.Engine[QPlan] {
	return &core.Engine[QPlan]{
		Property:        "C15",
		Name:            "coalesce-pool",
		Gen:             GenQPlan,
		GenFirst:        GenQPlanFirst,
		Valid:           func(p *QPlan) bool { return p.Valid() },
		Exec:            ExecQPlan,
		Outside:         isoTwins,
		ChildEval:       isoChildEval,
		ProbeNames:      qProbeNames,
		FaultNames:      qFaultNames,
		RaceIsViolation: true,
		NontrivialRule: "a run is non-trivial when its tasks execute >= 2 operations over >= 1 message group; distinct = distinct hash of the total-order " +
			"operation history (task, operation, group, virtual time) together with every oracle verdict",
		Components: map[string][]string{
			"real": {"aucoalesce.CoalesceMessages", "aucoalesce.ResolveIDs / ResolveIDsFromCaches with the global and per-task EntityCaches", "auparse.Parse, AuditMessage.Data/Tags/ToMapStr",
				"embedded normalisation tables", "os/user lookups against the sandbox's /etc/passwd and /etc/group"},
			"stub": {"goroutine scheduling (seeded scheduler at operation granularity)", "clock (virtual; drives the 60 s cache expiry)"},
		},
		Assumptions: []string{"tasks work on disjoint message groups and events (the property promises nothing about sharing one event between goroutines)",
			"Go map iteration order inside the library is not controllable; warnings are compared as sorted multisets"},
	}
}

func pipelineEngine(prop string) *core.Engine[PPlan] {
	return &core.Engine[PPlan]{
		Property:        prop,
		Name:            "pipeline",
		Gen:             GenPPlan,
		Valid:           func(p *PPlan) bool { return p.Valid() },
		Exec:            ExecPPlan(prop),
		ProbeNames:      pProbeNames,
		FaultNames:      pFaultNames,
		RaceIsViolation: true,
		NontrivialRule:  "pipeline runs are non-trivial when the kernel emitted >= 3 records and >= 2 events reached the Stream",
		Components: map[string][]string{
			"real": {"NetlinkClient.Receive + AuditClient.Receive over the verif socket seam", "Reassembler (Push, Maintain, Close)", "auparse.Parse", "aucoalesce.CoalesceMessages"},
			"stub": {"kernel record stream (SimKernel queue with loss/duplication/reordering, emission times)", "socket system calls (SimSocket)", "scheduling and clock"},
		},
	}
}

// Dispatch runs the worker for the property named in the configuration.
func Dispatch(t *testing.T, cfg core.Config) {
	switch os.Getenv("VERIF_ENGINE") {
	case "pipeline":
		core.RunWorker(t, cfg, pipelineEngine(cfg.Property))
		return
	case "reasm-conc":
		core.RunWorker(t, cfg, reasmConcEngine(cfg.Property))
		return
	}
	switch cfg.Property {
	case "C01":
		core.RunWorker(t, cfg, reasmSeqEngine("C01", 0))
	case "C02":
		core.RunWorker(t, cfg, reasmSeqEngine("C02", 2))
	case "C03":
		core.RunWorker(t, cfg, reasmSeqEngine("C03", 3))
	case "C10":
		core.RunWorker(t, cfg, reasmSeqEngine("C10", 10))
	case "C19":
		core.RunWorker(t, cfg, reasmSeqEngine("C19", 19))
	case "C11":
		core.RunWorker(t, cfg, reasmConcEngine("C11"))
	case "C15":
		core.RunWorker(t, cfg, coalesceEngine())
	case "C08":
		core.RunWorker(t, cfg, clientEngine("C08", GenKPlanC08, false))
	case "C16":
		core.RunWorker(t, cfg, clientEngine("C16", GenKPlanC16, true))
	case "C17":
		core.RunWorker(t, cfg, clientEngine("C17", GenKPlanC17, true))
	case "C18":
		core.RunWorker(t, cfg, clientEngine("C18", GenKPlanC18, true))
	default:
		fmt.Fprintf(os.Stderr, "SIM-FATAL unknown property %q\n", cfg.Property)
		os.Exit(core.ExitInternal)
	}
}

func init() {
	// the probe / fault tables must match the counters the engines fill in
	if len(kProbeNames) != nKProbes || len(kFaultNames) != nKFaults || len(rProbeNames) != nRProbes || len(rFaultNames) != nRFaults ||
		len(cProbeNames) != nCProbes || len(cFaultNames) != nCFaults || len(qProbeNames) != nQProbes ||
		len(pProbeNames) != nPProbes || len(pFaultNames) != nPFaults {
		panic("probe/fault name tables out of sync")
	}
}

func set(names ...string) map[string]bool {
	m := map[string]bool{}
	for _, n := range names {
		m[n] = true
	}
	return m
}

// clientRelevant lists, per property, the probes and fault kinds of the
// client engine that its scenario can reach (the others are omitted from the
// evidence instead of being shown as zeros).
var clientRelevant = map[string]map[string]bool{
	"C08": set("client_preloaded_with_300_to_70000_commands", "unsolicited_record_skipped_inside_call", "eagain_x9_then_success", "eintr_run_inside_call", "kernel_errno_reported",
		"semantic_errno_from_kernel_state", "stale_reply_refused", "call_judged_in_relaxed_mode", "reply_delayed_exactly_450ms", "getrules_with_2plus_rules",
		"deleterules_stopped_at_failure", "event_between_ack_and_data", "getrules_buffer_overwritten_later", "sendto_failed", "kernel_immutable",
		"getstatus_result_checked_again_at_end", "forged_reply_queued_ahead_of_the_kernels", "ack_datagram_truncated", "ack_of_20_to_35_bytes_errno_without_echo", "sequence_0_nlmsg_error_read_inside_call", "receive_failed_with_enobufs_inside_call", "sequence_counter_started_next_to_wrap",
		"verdict_left_unread_by_a_failed_call", "status_reply_ahead_of_its_ack", "error_ack_echoing_a_request_of_8900_bytes_or_more", "refusal_with_a_netlink_type_other_than_error",
		"injected_errno", "unsolicited_records", "stale_reply", "delayed_reply", "recv_eintr", "recv_eagain_injected", "recv_eagain_natural", "sendto_errno", "spoofed_datagram", "truncated_or_padded_reply"),
	"C16": set("client_preloaded_with_300_to_70000_commands", "status_reply_shorter_than_32", "status_reply_longer_than_44", "fromwire_short_buffer", "fromwire_partial_word",
		"unsolicited_record_skipped_inside_call", "kernel_immutable", "getstatus_result_checked_again_at_end", "event_between_ack_and_data",
		"unsolicited_records", "truncated_or_padded_reply", "setters_on_two_clients_in_two_tasks", "status_reply_ahead_of_its_ack", "forged_reply_queued_ahead_of_the_kernels", "spoofed_datagram",
		"receive_failed_with_enobufs_inside_call", "recv_eintr", "recv_eagain_injected", "eintr_run_inside_call", "sendto_failed", "sendto_errno"),
	"C17": set("client_preloaded_with_300_to_70000_commands", "nowait_request_sent", "waitacks_stopped_at_first_error", "waitacks_with_nothing_pending", "waitacks_called_again_after_error", "repeated_close_was_noop",
		"second_close_blocked_in_once", "close_cleared_pid", "getrules_with_2plus_rules", "getrules_buffer_overwritten_later", "unsolicited_record_skipped_inside_call",
		"eagain_x9_then_success", "eintr_run_inside_call", "kernel_errno_reported", "semantic_errno_from_kernel_state", "sendto_failed", "kernel_immutable",
		"event_between_ack_and_data", "getstatus_result_checked_again_at_end", "socket_close_reported_an_error", "sequence_counter_started_next_to_wrap",
		"more_than_16_nowait_requests_outstanding", "ack_delayed_past_a_whole_waitforpendingacks_call", "receive_failed_with_enobufs_inside_call", "delayed_reply", "recv_eagain_natural", "refusal_with_a_netlink_type_other_than_error", "truncated_or_padded_reply", "ack_of_20_to_35_bytes_errno_without_echo", "sequence_0_nlmsg_error_read_inside_call",
		"injected_errno", "unsolicited_records", "recv_eintr", "recv_eagain_injected", "sendto_errno", "concurrent_close_tasks"),
	"C18": set("client_preloaded_with_300_to_70000_commands", "porcupine_histories_checked", "receive_foreign_port_id", "receive_foreign_port_id_with_group_mask", "receive_foreign_port_id_2^31_or_more",
		"receive_non_netlink_address", "receive_short_datagram", "short_after_long_datagram", "send_payload_8970", "send_with_caller_pid", "sends_overlapped_in_time",
		"sendto_failed", "receive_on_two_independent_clients_in_tasks", "sendto_errno", "concurrent_send_tasks",
		"send_payload_with_spare_capacity", "send_same_payload_slice_again", "receive_datagram_whose_length_field_differs_from_its_size", "sequence_counter_started_next_to_wrap", "receive_interrupted_by_a_signal_then_repeated", "recv_eintr"),
}
