package engines

import (
	"errors"
	"io"
	"syscall"

	libaudit "github.com/elastic/go-libaudit/v2"

	"verifsim/core"
	"verifsim/kern"
)

// gate is the path from a transport to SimKernel. The direct gate calls the
// kernel inline (single-goroutine scenarios); the scheduled gate turns every
// socket call into a scheduling point executed by the scheduler goroutine,
// which owns the kernel.
type gate interface {
	send(wire []byte, dstPid uint32) int
	recv() (b []byte, fromPid uint32, groups uint32, nonNetlink bool, errno int)
	close() int
}

// KRecv scripts transient receive failures: before the n-th successful
// receive, N calls fail with EINTR (bit set in Kinds) or EAGAIN (bit clear).
type KRecv struct {
	N     int    `json:"n"`
	Kinds uint16 `json:"kinds,omitempty"`
}

// kernelPort holds the kernel plus the receive-fault script. It is only ever
// touched by one goroutine at a time (the driver, or the scheduler).
type kernelPort struct {
	k         *kern.Kernel
	script    []KRecv
	slot      int
	remaining int
	armed     bool
	bit       int
	// counters
	recvCalls     int
	naturalEagain int
	injEintr      int
	injEagain     int
	maxRun        int
	run           int
	sendErrno     []int // errno for the n-th sendto (0 = ok)
	sends         int
	sendFailed    int
	recvHard      []int // receive-call ordinals (counted over the run) that fail with ENOBUFS
	hardFired     int
	closeErrno    []int // errno reported by the n-th close(2) (the descriptor is released regardless)
	closeCalls    int
	closeFailed   int
	intrNext      int // so many of the next reads fail with EINTR (transport scenario)
	intrFired     int
}

func (p *kernelPort) doSend(wire []byte, dstPid uint32) int {
	n := p.sends
	p.sends++
	if n < len(p.sendErrno) && p.sendErrno[n] != 0 {
		p.sendFailed++
		return p.sendErrno[n]
	}
	return p.k.Sendto(wire, dstPid)
}

// doClose is close(2) on the socket: the descriptor is released in any case;
// the call may still report an error (EINTR, EIO).
func (p *kernelPort) doClose() int {
	n := p.closeCalls
	p.closeCalls++
	p.k.Close()
	if n < len(p.closeErrno) && p.closeErrno[n] != 0 {
		p.closeFailed++
		return p.closeErrno[n]
	}
	return 0
}

func (p *kernelPort) doRecv() (*kern.Datagram, int) {
	for _, n := range p.recvHard {
		if n == p.recvCalls {
			p.recvCalls++
			p.hardFired++
			return nil, 105 // ENOBUFS: the socket's receive queue overran; not a transient failure
		}
	}
	if p.intrNext > 0 {
		// the transport scenario's own "interrupted by a signal" reads
		p.intrNext--
		p.intrFired++
		p.recvCalls++
		p.injEintr++
		return nil, kern.EINTR
	}
	p.recvCalls++
	if !p.armed {
		p.armed = true
		p.bit = 0
		if p.slot < len(p.script) {
			p.remaining = p.script[p.slot].N
		} else {
			p.remaining = 0
		}
	}
	if p.remaining > 0 {
		p.remaining--
		kinds := uint16(0)
		if p.slot < len(p.script) {
			kinds = p.script[p.slot].Kinds
		}
		isIntr := kinds&(1<<uint(p.bit)) != 0
		p.bit++
		p.run++
		if p.run > p.maxRun {
			p.maxRun = p.run
		}
		if isIntr {
			p.injEintr++
			return nil, kern.EINTR
		}
		p.injEagain++
		return nil, kern.EAGAIN
	}
	d := p.k.Recv()
	if d == nil {
		p.naturalEagain++
		p.run++
		if p.run > p.maxRun {
			p.maxRun = p.run
		}
		return nil, kern.EAGAIN
	}
	p.run = 0
	p.armed = false
	p.slot++
	return d, 0
}

type directGate struct{ p *kernelPort }

func (g *directGate) send(wire []byte, dstPid uint32) int { return g.p.doSend(wire, dstPid) }
func (g *directGate) recv() ([]byte, uint32, uint32, bool, int) {
	d, e := g.p.doRecv()
	if d == nil {
		return nil, 0, 0, false, e
	}
	return d.Bytes, d.FromPid, d.Groups, d.NonNetlink, 0
}
func (g *directGate) close() int { return g.p.doClose() }

const (
	sysSend = iota + 1
	sysRecv
	sysClose
	sysInject // enqueue a datagram from the kernel on the socket (transport scenarios)
)

// schedGate performs socket calls as simulated system calls of the current
// task. port selects the socket (the C18 scenario runs a second, independent
// client on its own socket).
type schedGate struct {
	sc   *core.Sched
	port int64
}

func (g *schedGate) send(wire []byte, dstPid uint32) int {
	t := g.sc.Me()
	r := t.Sys(core.SysReq{Op: sysSend, A: int64(dstPid), B: g.port, Data: wire})
	return int(r.Errno)
}

func (g *schedGate) recv() ([]byte, uint32, uint32, bool, int) {
	t := g.sc.Me()
	r := t.Sys(core.SysReq{Op: sysRecv, B: g.port})
	return r.Data, uint32(r.A), uint32(r.A >> 32), r.N == 1, int(r.Errno)
}

func (g *schedGate) close() int {
	t := g.sc.Me()
	return int(t.Sys(core.SysReq{Op: sysClose, B: g.port}).Errno)
}

// sysHandler executes the simulated system calls in the scheduler goroutine.
func (p *kernelPort) sysHandler(task int, req core.SysReq) core.SysResp {
	switch req.Op {
	case sysSend:
		return core.SysResp{Errno: int64(p.doSend(req.Data, uint32(req.A)))}
	case sysRecv:
		d, e := p.doRecv()
		if d == nil {
			return core.SysResp{Errno: int64(e)}
		}
		nn := int64(0)
		if d.NonNetlink {
			nn = 1
		}
		return core.SysResp{Data: d.Bytes, A: int64(d.FromPid) | int64(d.Groups)<<32, N: nn}
	case sysClose:
		return core.SysResp{Errno: int64(p.doClose())}
	case sysInject:
		for _, d := range p.k.Queue {
			d.Consumed = true
		}
		p.k.Inject(req.Data, 0, false)
	}
	return core.SysResp{}
}

// gateBox lets the driver switch from the direct to the scheduled gate before
// it forks tasks (the fork is a visible happens-before edge).
type gateBox struct{ g gate }

//go:norace
func (b *gateBox) set(g gate) { b.g = g }

const poison = 0xEE

// nopWriter is the "dump every response" writer an application may hand to
// the NetlinkClient (it keeps no state: tasks may write to it at once).
type nopWriter struct{}

func (nopWriter) Write(b []byte) (int, error) { return len(b), nil }

func respWriter(p *KPlan) io.Writer {
	if p.Resp {
		return nopWriter{}
	}
	return nil
}

// stubNetlink implements libaudit.NetlinkSendReceiver directly on top of the
// kernel: it frames requests itself (per the UAPI layout) and reuses one
// receive buffer that is poisoned beyond the end of each datagram.
type stubNetlink struct {
	gb    *gateBox
	pid   uint32
	seq   uint32
	rbuf  []byte
	lastN int
}

func newStubNetlink(gb *gateBox, pid uint32) *stubNetlink {
	return &stubNetlink{gb: gb, pid: pid, rbuf: make([]byte, 16+8970)}
}

func (s *stubNetlink) Send(msg syscall.NetlinkMessage) (uint32, error) {
	s.seq++
	seq := s.seq
	pid := msg.Header.Pid
	if pid == 0 {
		pid = s.pid
	}
	b := make([]byte, 16+len(msg.Data))
	putU32(b[0:], uint32(len(b)))
	putU16(b[4:], msg.Header.Type)
	putU16(b[6:], msg.Header.Flags)
	putU32(b[8:], seq)
	putU32(b[12:], pid)
	copy(b[16:], msg.Data)
	if e := s.gb.g.send(b, 0); e != 0 {
		return seq, syscall.Errno(e)
	}
	return seq, nil
}

func (s *stubNetlink) Receive(nonBlocking bool, p libaudit.NetlinkParser) ([]syscall.NetlinkMessage, error) {
	b, _, _, _, e := s.gb.g.recv()
	if e != 0 {
		return nil, syscall.Errno(e)
	}
	for i := range s.rbuf {
		s.rbuf[i] = poison
	}
	n := copy(s.rbuf, b)
	s.lastN = n
	return p(s.rbuf[:n])
}

func (s *stubNetlink) Close() error {
	if e := s.gb.g.close(); e != 0 {
		return syscall.Errno(e)
	}
	return nil
}

func putU32(b []byte, v uint32) {
	b[0], b[1], b[2], b[3] = byte(v), byte(v>>8), byte(v>>16), byte(v>>24)
}
func putU16(b []byte, v uint16) { b[0], b[1] = byte(v), byte(v>>8) }
func getU32(b []byte) uint32 {
	return uint32(b[0]) | uint32(b[1])<<8 | uint32(b[2])<<16 | uint32(b[3])<<24
}
func getU16(b []byte) uint16 { return uint16(b[0]) | uint16(b[1])<<8 }

// simSocket implements libaudit.VerifSocket: the system-call seam under the
// real NetlinkClient.
type simSocket struct {
	gb       *gateBox
	dstNotNL int // sendto calls whose destination was not a netlink address
}

func (s *simSocket) Sendto(p []byte, flags int, to syscall.Sockaddr) error {
	dst := uint32(0xffffffff)
	if nl, ok := to.(*syscall.SockaddrNetlink); ok && nl != nil {
		dst = nl.Pid
	}
	if e := s.gb.g.send(p, dst); e != 0 {
		return syscall.Errno(e)
	}
	return nil
}

func (s *simSocket) Recvfrom(p []byte, flags int) (int, syscall.Sockaddr, error) {
	b, from, groups, nonNL, e := s.gb.g.recv()
	if e != 0 {
		return -1, nil, syscall.Errno(e)
	}
	n := copy(p, b)
	for i := n; i < len(p); i++ {
		p[i] = poison
	}
	if nonNL {
		return n, &syscall.SockaddrUnix{Name: "/spoof"}, nil
	}
	// only the port id says who sent the datagram; the group mask varies freely
	return n, &syscall.SockaddrNetlink{Family: syscall.AF_NETLINK, Pid: from, Groups: groups}, nil
}

func (s *simSocket) Close() error {
	if e := s.gb.g.close(); e != 0 {
		return syscall.Errno(e)
	}
	return nil
}

// identifies reports whether err identifies the kernel errno e: the errno must
// be recoverable from the error chain (errors.As / errors.Is), which is how a
// Go caller identifies it. The one documented exception is AddRule, which
// reports EEXIST as the fixed text "rule exists".
func identifies(err error, e int, method string) (bool, string) {
	if err == nil {
		return false, "nil error"
	}
	var en syscall.Errno
	if errors.As(err, &en) {
		if int(en) == e {
			return true, ""
		}
		return false, "error carries errno " + itoaI(int(en)) + " (" + en.Error() + ")"
	}
	text := err.Error()
	if method == "AddRule" && e == kern.EEXIST && containsStr(text, "rule exists") {
		return true, ""
	}
	return false, "error " + quote(text) + " does not carry errno " + itoaI(e) + " (" + syscall.Errno(e).Error() + ") in its chain"
}
