// Package engines holds the scenario families: plan generators, plan
// interpreters and oracles.
package engines

import (
	"math"

	"verifsim/core"
)

// UAPI numbers (linux/audit.h), written out here on purpose: oracles do not
// import the library's constants.
const (
	tEOE       = 1320
	tSYSCALL   = 1300
	tPATH      = 1302
	tCWD       = 1307
	tEXECVE    = 1309
	tSOCKADDR  = 1306
	tPROCTITLE = 1327
	tUSERAUTH  = 1100
	tLOGIN     = 1006
	tANOM      = 2100
	tAVC       = 1400
)

// completes is the rule for "a record that terminates its event": PROCTITLE
// is the last record of a syscall event, records below 1300 (user space /
// daemon) and from 2100 up (anomaly, integrity, ...) are single-record events.
func completes(typ uint16) bool { return typ == 1327 || typ < 1300 || typ >= 2100 }

const spanMax = 1<<24 - 1 // largest offset inside one sequence window

// Reassembler operation kinds.
const (
	opPushMsg = iota
	opPushRaw
	opSleep
	opMaintain
	opClose
	opPushNil
	opPushBad
	opAdvance // E2 only: scheduler-owned clock step
)

var ropNames = []string{"PushMessage", "Push", "sleep", "Maintain", "Close", "PushMessage(nil)", "Push(bad)", "advance"}

// ROp is one driver operation.
type ROp struct {
	K   int    `json:"k"`
	Off uint32 `json:"off,omitempty"` // window offset; sequence = base + off (mod 2^32)
	Typ uint16 `json:"typ,omitempty"`
	D   int64  `json:"d,omitempty"`   // sleep, ns
	Dup bool   `json:"dup,omitempty"` // PushMessage of a distinct message object that equals the previous PushMessage's message in every field (type, sequence, raw text)
	Decoy bool `json:"decoy,omitempty"` // Push: the record's text quotes another well-formed audit header, with another sequence number, after its own
	Pre bool   `json:"pre,omitempty"` // PushMessage of a message object that auparse.Parse produced before the first call (an application that parses, queues, then pushes)
}

// RPlan is a plan for the single-goroutine Reassembler engine.
type RPlan struct {
	Max     int    `json:"max_in_flight"`
	Timeout int64  `json:"timeout_ns"`
	Base    uint32 `json:"seq_base"`
	// WideB != 0: "two far-apart sequence numbers" mode (C10 only). Offset 0 is
	// Base and offset 1 is WideB; they differ by more than 2^24-1 and Base is
	// the older one by the documented rule (numbers that far apart are
	// ordered as a roll-over: the larger one is the older).
	WideB uint32 `json:"wide_b,omitempty"`
	// Scatter (3..5 disjoint clusters of sequence numbers, C01 only): offsets
	// are dealt round-robin onto the bases, sequence = Scatter[off%k] + off/k.
	// Numbers spread over more than one 2^24 window have no order (the
	// documented comparison is not transitive there: with spacings just
	// under 2^24 it is cyclic), so only what C01 promises - exactly once,
	// grouped, in push order, not split - is judged in this mode.
	Scatter []uint32 `json:"scatter,omitempty"`
	// Soak, when set, replaces Ops by a long history generated from this recipe
	// at execution time (the plan stays small and shrinks by its numbers).
	Soak *RSoak `json:"soak,omitempty"`
	Ops  []ROp  `json:"ops"`
	// Fired counts, per stream-fault kind, how often the generator applied it
	// while producing Ops (evidence only; stale after shrinking).
	Fired []int `json:"fired,omitempty" shrink:"-"`
}

// RSoak is the recipe of a long, mostly orderly history: N events in
// ascending sequence order, each a few records, with now and then a gap, an
// event that never completes, a straggler, a Maintain call or a sleep.
type RSoak struct {
	N     int    `json:"n"`               // events
	Seed  uint64 `json:"seed"`            // drives the details
	Gap   int    `json:"gap_pct"`         // per cent of events followed by a gap of 1..3 numbers
	Open  int    `json:"open_pct"`        // per cent of events that lose their terminator
	Multi int    `json:"multi_pct"`       // per cent of events with 2..5 records (the others are single records)
	Maint int    `json:"maintain_every"`  // a Maintain call every so many events (0: never)
	Sleep int64  `json:"sleep_ns"`        // virtual time slept every 97 events
	Raw   bool   `json:"raw,omitempty"`   // records go through Push (text) instead of PushMessage
	Close bool   `json:"close,omitempty"` // Close at the end
	// Backlog > 0: the history comes in cycles. An event that stays open is
	// followed by Backlog events that pile up behind it (complete, or open too
	// when Open says so); then the pile is let go at once: by the open event's
	// EOE, by a sleep past the timeout and one Maintain, or by the next cycle.
	Backlog int `json:"backlog,omitempty"`
	// Huge > 0: one event of so many records in the middle of the history.
	Huge int `json:"huge_event_records,omitempty"`
	// EOE: every multi-record event ends with an EOE record (never PROCTITLE).
	EOE bool `json:"eoe,omitempty"`
	// Tail: after the N events, a gap of three numbers and one event that stays
	// open, then (Close says) Close or a sleep past the timeout and one Maintain:
	// the flush that follows exactly N deliveries.
	Tail bool `json:"tail,omitempty"`
	// Reorder: per cent of events whose first record arrives before the
	// previous event's (neighbours swapped on the way, as between two CPUs).
	Reorder int `json:"reorder_pct,omitempty"`
}

// counts at which periodic work tends to happen
var soakThresholds = []int{256, 512, 1000, 1024, 2048, 4096, 8192, 10000, 16384, 32768, 65536}

// appendSoakEvent appends the records of one ordinary event.
func appendSoakEvent(ops []ROp, r *core.Rng, k *RSoak, push int, off uint32) []ROp {
	if r.Chance(k.Multi, 100) {
		ops = append(ops, ROp{K: push, Off: off, Typ: tSYSCALL}, ROp{K: push, Off: off, Typ: tPATH})
		if !r.Chance(k.Open, 100) {
			term := uint16(tPROCTITLE)
			if k.EOE {
				term = tEOE
			}
			ops = append(ops, ROp{K: push, Off: off, Typ: term})
		}
		return ops
	}
	return append(ops, ROp{K: push, Off: off, Typ: core.Pick[uint16](r, tUSERAUTH, tLOGIN, tANOM, 1112)})
}

func expandSoak(p *RPlan) []ROp {
	k := p.Soak
	r := core.NewRng(k.Seed | 1)
	push := opPushMsg
	if k.Raw {
		push = opPushRaw
	}
	ops := make([]ROp, 0, 3*k.N+16)
	off := uint32(0)
	if k.Backlog > 0 {
		for e := 0; e < k.N && off < spanMax-8; {
			headOff := off
			ops = append(ops, ROp{K: push, Off: off, Typ: tSYSCALL})
			off++
			e++
			for j := 0; j < k.Backlog && e < k.N; j++ {
				if r.Chance(k.Gap, 100) {
					off += uint32(r.Range(1, 3))
				}
				switch {
				case r.Chance(k.Open, 100):
					ops = append(ops, ROp{K: push, Off: off, Typ: tSYSCALL})
				case r.Chance(k.Multi, 100):
					ops = append(ops, ROp{K: push, Off: off, Typ: tSYSCALL}, ROp{K: push, Off: off, Typ: tPATH}, ROp{K: push, Off: off, Typ: tPROCTITLE})
				default:
					ops = append(ops, ROp{K: push, Off: off, Typ: core.Pick[uint16](r, tUSERAUTH, tLOGIN, tANOM)})
				}
				off++
				e++
			}
			switch r.Intn(4) {
			case 0:
				ops = append(ops, ROp{K: push, Off: headOff, Typ: tEOE})
			case 1:
				if p.Timeout > 0 && p.Timeout < 3600e9 {
					ops = append(ops, ROp{K: opSleep, D: p.Timeout + 1}, ROp{K: opMaintain})
				} else {
					ops = append(ops, ROp{K: push, Off: headOff, Typ: tPROCTITLE})
				}
			case 2:
				ops = append(ops, ROp{K: opMaintain})
			}
		}
		if k.Close {
			ops = append(ops, ROp{K: opClose})
		}
		return ops
	}
	var prevStart int // index in ops where the previous event's records begin
	for e := 0; e < k.N && off < spanMax-8; e++ {
		start := len(ops)
		if e > 0 && k.Reorder > 0 && r.Chance(k.Reorder, 100) {
			// this event overtakes the previous one: its records are put in front of it
			defer0 := append([]ROp(nil), ops[prevStart:]...)
			ops = ops[:prevStart]
			start = len(ops)
			ops = appendSoakEvent(ops, r, k, push, off)
			ops = append(ops, defer0...)
			prevStart = start
			off++
			if r.Chance(k.Gap, 100) {
				off += uint32(r.Range(1, 3))
			}
			continue
		}
		prevStart = start
		if r.Chance(k.Multi, 100) {
			n := r.Range(1, 4)
			ops = append(ops, ROp{K: push, Off: off, Typ: tSYSCALL})
			for j := 1; j < n; j++ {
				ops = append(ops, ROp{K: push, Off: off, Typ: core.Pick[uint16](r, tPATH, tCWD, tEXECVE)})
			}
			if !r.Chance(k.Open, 100) {
				term := core.Pick[uint16](r, tPROCTITLE, tPROCTITLE, tEOE)
				if k.EOE {
					term = tEOE
				}
				ops = append(ops, ROp{K: push, Off: off, Typ: term})
			}
		} else {
			ops = append(ops, ROp{K: push, Off: off, Typ: core.Pick[uint16](r, tUSERAUTH, tLOGIN, tANOM, 1112)})
		}
		if e%211 == 210 && off > 3 && !k.Tail {
			ops = append(ops, ROp{K: push, Off: off - 2, Typ: tPATH}) // a straggler
		}
		if k.Huge > 0 && e == k.N/2 {
			for j := 0; j < k.Huge; j++ {
				ops = append(ops, ROp{K: push, Off: off + 1, Typ: core.Pick[uint16](r, tPATH, tPATH, tEXECVE)})
			}
			ops = append(ops, ROp{K: push, Off: off + 1, Typ: tPROCTITLE})
			off++
		}
		if k.Maint > 0 && e%k.Maint == k.Maint-1 {
			ops = append(ops, ROp{K: opMaintain})
		}
		if k.Sleep > 0 && e%97 == 96 {
			ops = append(ops, ROp{K: opSleep, D: k.Sleep})
		}
		off++
		if r.Chance(k.Gap, 100) {
			off += uint32(r.Range(1, 3))
		}
	}
	if k.Tail {
		ops = append(ops, ROp{K: push, Off: off + 3, Typ: tSYSCALL})
		if !k.Close && p.Timeout > 0 && p.Timeout < 3600e9 {
			ops = append(ops, ROp{K: opSleep, D: p.Timeout + 1}, ROp{K: opMaintain})
		}
		ops = append(ops, ROp{K: opClose})
		return ops
	}
	if k.Close {
		ops = append(ops, ROp{K: opClose})
	}
	return ops
}

func (p *RPlan) Valid() bool {
	if p.Soak != nil {
		k := p.Soak
		if k.N < 1 || k.N > 70000 || k.Gap < 0 || k.Gap > 100 || k.Open < 0 || k.Open > 100 || k.Multi < 0 || k.Multi > 100 || k.Maint < 0 || k.Sleep < 0 ||
			len(p.Ops) != 0 || p.WideB != 0 || len(p.Scatter) != 0 || p.Max < 0 || p.Max > 5000 || k.Backlog < 0 || k.Backlog > 5000 || k.Huge < 0 || k.Huge > 70000 || k.Reorder < 0 || k.Reorder > 100 {
			return false
		}
		return true
	}
	if p.Max < 0 || p.Max > 64 || len(p.Ops) > 1000 {
		return false
	}
	for _, o := range p.Ops {
		if o.Off > spanMax || o.K < 0 || o.K > opPushBad || o.D < 0 {
			return false
		}
		if p.WideB != 0 && o.Off > 1 {
			return false
		}
	}
	if len(p.Scatter) != 0 {
		if len(p.Scatter) < 3 || len(p.Scatter) > 5 || p.WideB != 0 {
			return false
		}
		for i, a := range p.Scatter {
			for _, b := range p.Scatter[:i] {
				if d := a - b; d < 1<<17 || -d < 1<<17 {
					return false // clusters must not overlap
				}
			}
		}
		for _, o := range p.Ops {
			if o.Off >= 1<<16 {
				return false
			}
		}
	}
	if p.WideB != 0 {
		d := int64(p.Base) - int64(p.WideB)
		if d < 0 {
			d = -d
		}
		if d <= spanMax || p.Base < p.WideB {
			return false // Base must be the larger (= older) of two numbers more than 2^24-1 apart
		}
	}
	return true
}

// stream fault kinds
const (
	fDropRecord = iota
	fDropTerminator
	fDropEvent
	fDuplicate
	fReorder
	fLateDelay
	fRestart
	fNilMsg
	fBadRaw
	fInterleave
	fRollover
	fClockBoundary
	fLongEvent
	nRFaults
)

var rFaultNames = []string{"drop_record", "drop_terminator", "drop_event_gap", "duplicate_record", "reorder", "delay_past_eviction",
	"sequence_restart", "nil_message", "unparsable_push", "interleaved_events", "uint32_rollover_window", "boundary_sleep", "event_with_63_to_300_records"}

const nBadRaw = 15 // variants of unparsable raw records (reasm_seq.go)

var timeoutClasses = []int64{-1e9, 0, 1e6, 50e6, 2e9, 3600e9, math.MaxInt64}

type genEvent struct {
	off  uint32
	recs []uint16
}

// GenRPlan draws a Reassembler history. tilt biases the workload towards what
// a property cares about: 0 neutral, 3 = loss accounting (C03), 10 = buffer /
// eviction (C10), 19 = time (C19), 2 = disorder (C02).
func GenRPlan(r *core.Rng, tilt int) *RPlan {
	soakOdds := 1000
	if tilt == 2 {
		soakOdds = 500 // (ordering at scale: the cheapest engine can afford twice as many)
	}
	if r.Chance(1, soakOdds) {
		// a long history (what accumulates: counters, slices that are cut from the front, periodic work)
		p := &RPlan{Max: core.Pick(r, 0, 1, 2, 5, 8, 32), Timeout: core.Pick[int64](r, 2e9, 2e9, 3600e9, 1e6, math.MaxInt64), Base: core.Pick(r, uint32(0), 1, 1<<32-1000, r.U32())}
		p.Soak = &RSoak{N: core.Pick(r, 300, 600, 1100, 2100, 4200, 9000, 17000, 33000, 66000, 70000), Seed: r.U64(), Gap: core.Pick(r, 0, 0, 1, 5), Open: core.Pick(r, 0, 1, 5),
			Multi: core.Pick(r, 0, 30, 70, 100), Maint: core.Pick(r, 0, 50, 1000), Sleep: core.Pick[int64](r, 0, 1e6, 500e6), Raw: r.Chance(1, 4), Close: r.Chance(2, 3)}
		switch r.Intn(6) {
		case 0:
			// exactly as many deliveries as periodic work tends to wait for (or one more, or one less), then a flush across a gap
			p.Soak.N = core.Pick(r, soakThresholds...) + r.Range(-1, 1)
			p.Soak.Gap, p.Soak.Open, p.Soak.Multi, p.Soak.Tail = 0, 0, core.Pick(r, 0, 0, 100), true
			p.Timeout = core.Pick[int64](r, 2e9, 3600e9)
		case 1:
			// one enormous event
			p.Soak.Huge = core.Pick(r, 1000, 2047, 2048, 2049, 4100, 10000, 66000)
			if p.Soak.N > 9000 {
				p.Soak.N = 9000
			}
		case 2:
			// every event ends with an EOE record, as text
			p.Soak.EOE, p.Soak.Multi, p.Soak.Raw = true, 100, r.Chance(3, 4)
		}
		if r.Chance(1, 3) {
			// the sequence counter rolls over where periodic work tends to happen
			p.Base = uint32(-core.Pick(r, soakThresholds...) + r.Range(-300, 300))
		}
		if p.Soak.Huge == 0 && !p.Soak.Tail && r.Chance(1, 2) {
			// piles of events behind one that stays open, in a Reassembler with room for them
			p.Soak.Backlog = core.Pick(r, 100, 260, 520, 700, 1100, 2100, 4200)
			p.Max = core.Pick(r, p.Soak.Backlog+1, p.Soak.Backlog+50, p.Soak.Backlog/2, 5000)
			p.Soak.Open = core.Pick(r, 0, 0, 5, 100)
			p.Soak.Gap = core.Pick(r, 0, 1, 1, 5)
			if p.Soak.N > 20000 {
				p.Soak.N = 20000
			}
			p.Timeout = core.Pick[int64](r, 2e9, 2e9, 3600e9, math.MaxInt64)
		}
		if p.Soak.Backlog == 0 && !p.Soak.Tail && r.Chance(1, 2) {
			p.Soak.Reorder = core.Pick(r, 2, 10, 30)
		}
		p.Fired = make([]int, nRFaults)
		return p
	}
	p := &RPlan{}
	p.Max = core.Pick(r, 0, 1, 1, 2, 2, 3, 3, 5, 5, 8, 16, 32)
	switch {
	case tilt == 19 || tilt == 10:
		p.Timeout = core.Pick(r, timeoutClasses...)
	default:
		p.Timeout = core.Pick[int64](r, -1e9, 0, 1e6, 50e6, 2e9, 2e9, 3600e9, 3600e9, 3600e9, math.MaxInt64)
	}
	fired := make([]int, nRFaults)
	switch r.Intn(8) {
	case 0:
		p.Base = 0
	case 1:
		p.Base = 1
	case 2, 3:
		p.Base = uint32(1<<32 - r.Range(1, 8))
		fired[fRollover]++
	case 4:
		p.Base = uint32(1<<24 + r.Range(-8, 8))
	case 5:
		p.Base = uint32(1<<31 + r.Range(-8, 8))
	default:
		p.Base = r.U32()
	}
	if tilt == 10 && r.Chance(1, 25) {
		// two sequence numbers more than 2^24-1 apart: by the documented rule
		// the larger one is the older. Everything else about the history is
		// ordinary; only these two numbers occur.
		lo := r.U32() >> 1
		diff := uint32(r.Range(1<<24, 1<<31-1))
		if r.Chance(1, 3) {
			diff = uint32(core.Pick(r, 1<<24, 1<<24+1, 1<<25, 1<<30, 1<<31-1, 1<<31, 1<<31, 1<<31+1, 3<<30)) // (exactly 2^31: the distance whose negation overflows 32 bits)
		}
		if uint64(lo)+uint64(diff) > 1<<32-1 {
			lo = 5
		}
		p.Base, p.WideB = lo+diff, lo
		if p.WideB == 0 {
			p.WideB, p.Base = 1, 1+diff
		}
		ops := genChaos(r, p, fired)
		for i := range ops {
			ops[i].Off &= 1
		}
		p.Ops = ops
	} else if r.Chance(1, 6) {
		p.Ops = genChaos(r, p, fired)
	} else {
		p.Ops = genStream(r, p, tilt, fired)
	}
	if p.WideB == 0 && r.Chance(1, 12) {
		// one event with very many records (a runaway producer, a re-used
		// sequence number): 63..300 non-terminating records for one new
		// sequence number, somewhere in the history, then perhaps its terminator
		var top uint32
		for _, o := range p.Ops {
			if (o.K == opPushMsg || o.K == opPushRaw) && o.Off > top {
				top = o.Off
			}
		}
		if top < spanMax {
			n := core.Pick(r, 63, 64, 65, 100, 128, 129, 257, 300)
			burst := make([]ROp, 0, n+1)
			for j := 0; j < n; j++ {
				burst = append(burst, ROp{K: opPushMsg, Off: top + 1, Typ: core.Pick[uint16](r, tPATH, tPATH, tSYSCALL, tEXECVE)})
			}
			if r.Chance(1, 2) {
				burst = append(burst, ROp{K: opPushMsg, Off: top + 1, Typ: core.Pick[uint16](r, tPROCTITLE, tEOE)})
			}
			at := len(p.Ops)
			for k, o := range p.Ops {
				if o.K == opClose {
					at = k
					break
				}
			}
			if at > 0 && r.Chance(1, 2) {
				at = r.Intn(at + 1)
			}
			p.Ops = append(p.Ops[:at:at], append(burst, p.Ops[at:]...)...)
			fired[fLongEvent]++
		}
	}
	if r.Chance(1, 8) {
		// records that repeat: a second message object equal to the one pushed before it
		var out []ROp
		for _, o := range p.Ops {
			out = append(out, o)
			if o.K == opPushMsg && len(out) < 900 && r.Chance(1, 4) {
				d := o
				d.Dup = true
				out = append(out, d)
			}
		}
		p.Ops = out
	}
	if r.Chance(1, 6) {
		// message objects that were parsed ahead of time and pushed later
		for i := range p.Ops {
			if p.Ops[i].K == opPushMsg && r.Chance(1, 2) {
				p.Ops[i].Pre = true
			}
		}
	}
	if tilt == 0 && p.WideB == 0 && r.Chance(1, 10) {
		// the same history dealt onto 3..5 far-apart clusters of sequence numbers
		k := r.Range(3, 5)
		b0 := core.Pick(r, uint32(5), 1<<32-(1<<24), r.U32())
		// spacing: just inside one window (neighbours ordered plainly, the ends as a
		// roll-over: a cycle), just outside, or spread over the whole number space
		sp := core.Pick(r, uint32(1<<23), 1<<23+1<<22, 1<<24-1<<17, 1<<24+1<<17, 1<<25, uint32((1<<32)/k), uint32(r.Range(1<<18, 1<<26)))
		for j := 0; j < k; j++ {
			p.Scatter = append(p.Scatter, b0+uint32(j)*sp+uint32(r.Intn(1<<10)))
		}
		if r.Chance(1, 2) {
			// in any order
			for j := k - 1; j > 0; j-- {
				i := r.Intn(j + 1)
				p.Scatter[i], p.Scatter[j] = p.Scatter[j], p.Scatter[i]
			}
		}
		for i := range p.Ops {
			p.Ops[i].Off %= 1 << 12
		}
		if !p.Valid() {
			p.Scatter = nil
		}
	}
	p.Fired = fired
	return p
}

func sleepChoices(r *core.Rng, timeout int64, fired []int) int64 {
	switch r.Intn(10) {
	case 0:
		return 0
	case 1:
		return 1
	case 2, 3, 4:
		if timeout > 0 && timeout < math.MaxInt64/2 {
			fired[fClockBoundary]++
			return timeout + int64(r.Range(-1, 1))
		}
		return 500e6
	case 5:
		return 500e6
	case 6:
		return 60e9
	case 7:
		if timeout > 2 && timeout < math.MaxInt64/2 {
			return timeout / 2
		}
		return 1e6
	default:
		return int64(r.Range(1, 3_000_000_000))
	}
}

var nonCompleting = []uint16{tSYSCALL, tPATH, tCWD, tEXECVE, tSOCKADDR, 1326, 1328, 2099, tAVC, 1399}

// anyType draws a record type from the whole 16-bit range, with weight on
// the kernel range 1300..2099 (where only PROCTITLE terminates an event).
func anyType(r *core.Rng) uint16 {
	switch r.Intn(4) {
	case 0:
		return uint16(r.Intn(1 << 16))
	case 1:
		return uint16(r.Range(1290, 1340))
	default:
		return uint16(r.Range(1300, 2110))
	}
}

var completing = []uint16{tPROCTITLE, tUSERAUTH, tLOGIN, tANOM, 1299, 1000, 2500, 1112, 65535, 0}

func genStream(r *core.Rng, p *RPlan, tilt int, fired []int) []ROp {
	nEv := r.Range(1, core.Scale(12, true))
	// swarm knobs for this run
	pGap := core.Pick(r, 0, 0, 10, 25, 50)
	if tilt == 3 {
		pGap = core.Pick(r, 0, 20, 40, 60)
	}
	pDropRec := core.Pick(r, 0, 0, 5, 15)
	pDropTerm := core.Pick(r, 0, 10, 30, 60)
	if tilt == 10 || tilt == 19 {
		pDropTerm = core.Pick(r, 20, 50, 80)
	}
	pDup := core.Pick(r, 0, 0, 5, 15)
	pReorder := core.Pick(r, 0, 0, 10, 30, 60)
	if tilt == 2 {
		pReorder = core.Pick(r, 20, 40, 70)
	}
	pLate := core.Pick(r, 0, 0, 5, 15, 30)
	if tilt == 3 || tilt == 2 {
		pLate = core.Pick(r, 5, 15, 30, 50)
	}
	pSleep := core.Pick(r, 0, 5, 15, 30)
	if tilt == 19 || tilt == 10 {
		pSleep = core.Pick(r, 10, 25, 40)
	}
	pMaint := core.Pick(r, 0, 5, 15, 30)
	pSingle := core.Pick(r, 10, 40, 70, 100)
	window := core.Pick(r, 1, 1, 2, 3, 4)

	// start offset: low, or placed so the history ends at the window edge.
	var off uint32
	switch r.Intn(6) {
	case 0:
		off = uint32(r.Range(1, 20))
	case 1:
		off = uint32(spanMax - r.Range(0, 40))
	default:
		off = 0
	}
	var evs []genEvent
	for i := 0; i < nEv; i++ {
		if i > 0 {
			step := uint32(1)
			if r.Chance(pGap, 100) {
				step = uint32(r.Range(2, 7))
				fired[fDropEvent]++
				if r.Chance(1, 10) {
					step = uint32(r.Range(100, 70000))
				}
			}
			if uint64(off)+uint64(step) > spanMax {
				break
			}
			off += step
		}
		ev := genEvent{off: off}
		if r.Chance(pSingle, 100) {
			ev.recs = []uint16{core.Pick(r, completing...)}
			if r.Chance(1, 6) {
				ev.recs[0] = anyType(r) // may or may not terminate its event
			}
		} else {
			ev.recs = append(ev.recs, tSYSCALL)
			for k := r.Intn(5); k > 0; k-- {
				t := core.Pick(r, nonCompleting...)
				if r.Chance(1, 6) {
					if t = anyType(r); completes(t) || t == tEOE {
						t = tPATH
					}
				}
				ev.recs = append(ev.recs, t)
			}
			switch r.Intn(4) {
			case 0:
				ev.recs = append(ev.recs, tPROCTITLE)
			case 1:
				ev.recs = append(ev.recs, tEOE)
			case 2:
				ev.recs = append(ev.recs, tPROCTITLE, tEOE)
			default:
				ev.recs = append(ev.recs, core.Pick(r, completing...))
			}
			if r.Chance(pDropTerm, 100) {
				// terminator(s) lost
				for len(ev.recs) > 1 && (ev.recs[len(ev.recs)-1] == tEOE || completes(ev.recs[len(ev.recs)-1])) {
					ev.recs = ev.recs[:len(ev.recs)-1]
				}
				fired[fDropTerminator]++
			}
		}
		evs = append(evs, ev)
	}
	// restart of the sequence: later events re-use low offsets.
	if len(evs) > 3 && r.Chance(1, 8) {
		k := r.Range(2, len(evs)-1)
		base := uint32(r.Range(0, int(evs[0].off)+2))
		for i := k; i < len(evs); i++ {
			evs[i].off = base + uint32(i-k)
		}
		fired[fRestart]++
	}
	// flatten with interleaving: records are emitted from up to `window` open events.
	type rec struct {
		off uint32
		typ uint16
	}
	var recs []rec
	idx := make([]int, len(evs))
	lo := 0
	for lo < len(evs) {
		hi := lo + window
		if hi > len(evs) {
			hi = len(evs)
		}
		var open []int
		for i := lo; i < hi; i++ {
			if idx[i] < len(evs[i].recs) {
				open = append(open, i)
			}
		}
		if len(open) == 0 {
			lo = hi
			continue
		}
		e := open[r.Intn(len(open))]
		if e != open[0] {
			fired[fInterleave]++
		}
		recs = append(recs, rec{evs[e].off, evs[e].recs[idx[e]]})
		idx[e]++
		for lo < len(evs) && idx[lo] >= len(evs[lo].recs) {
			lo++
		}
	}
	// record-level faults
	var out []rec
	var late []rec
	for _, rc := range recs {
		if r.Chance(pDropRec, 100) {
			fired[fDropRecord]++
			continue
		}
		if r.Chance(pLate, 100) {
			late = append(late, rc)
			fired[fLateDelay]++
			continue
		}
		out = append(out, rc)
		if r.Chance(pDup, 100) {
			out = append(out, rc)
			fired[fDuplicate]++
		}
		// release a delayed record a good while later
		if len(late) > 0 && r.Chance(1, 6) {
			out = append(out, late[0])
			late = late[1:]
		}
	}
	out = append(out, late...)
	if pReorder > 0 {
		for i := 0; i+1 < len(out); i++ {
			if r.Chance(pReorder, 300) {
				j := i + r.Range(1, 4)
				if j >= len(out) {
					j = len(out) - 1
				}
				out[i], out[j] = out[j], out[i]
				fired[fReorder]++
			}
		}
	}
	// ops
	var ops []ROp
	for _, rc := range out {
		if r.Chance(pSleep, 100) {
			ops = append(ops, ROp{K: opSleep, D: sleepChoices(r, p.Timeout, fired)})
		}
		if r.Chance(pMaint, 100) {
			ops = append(ops, ROp{K: opMaintain})
		}
		if r.Chance(1, 60) {
			ops = append(ops, ROp{K: opPushNil})
			fired[fNilMsg]++
		}
		if r.Chance(1, 60) {
			ops = append(ops, ROp{K: opPushBad, Off: rc.off, Typ: uint16(r.Intn(nBadRaw))})
			fired[fBadRaw]++
		}
		k := opPushMsg
		if r.Chance(1, 4) {
			k = opPushRaw
		}
		ops = append(ops, ROp{K: k, Off: rc.off, Typ: rc.typ, Decoy: k == opPushRaw && r.Chance(1, 3)})
	}
	return genTail(r, p, ops, fired)
}

func genTail(r *core.Rng, p *RPlan, ops []ROp, fired []int) []ROp {
	if r.Chance(1, 3) {
		ops = append(ops, ROp{K: opSleep, D: sleepChoices(r, p.Timeout, fired)})
		if r.Chance(1, 2) {
			ops = append(ops, ROp{K: opMaintain})
		}
	}
	if r.Chance(19, 20) {
		ops = append(ops, ROp{K: opClose})
		// the history may go on after Close: pushes keep working, Maintain and
		// a second Close must fail. Offsets continue after / re-use those of
		// the history so far.
		var maxOff uint32
		var used []uint32
		for _, o := range ops {
			if o.K == opPushMsg || o.K == opPushRaw {
				used = append(used, o.Off)
				if o.Off > maxOff {
					maxOff = o.Off
				}
			}
		}
		n := r.Intn(3)
		if r.Chance(1, 4) {
			n = r.Range(3, 8)
		}
		for k := n; k > 0; k-- {
			switch r.Intn(5) {
			case 0:
				ops = append(ops, ROp{K: opClose})
			case 1:
				ops = append(ops, ROp{K: opMaintain})
			case 2:
				ops = append(ops, ROp{K: opSleep, D: sleepChoices(r, p.Timeout, fired)}, ROp{K: opMaintain})
			default:
				off := uint32(r.Intn(8))
				switch r.Intn(3) {
				case 0:
					if len(used) > 0 {
						off = used[r.Intn(len(used))] // a sequence number seen before Close
					}
				case 1:
					if maxOff+8 <= spanMax {
						off = maxOff + uint32(r.Range(1, 6)) // carry on after the history, possibly with a gap
						maxOff = off
					}
				}
				ops = append(ops, ROp{K: opPushMsg, Off: off, Typ: core.Pick[uint16](r, tSYSCALL, tUSERAUTH, tPROCTITLE, tEOE, tPATH)})
				used = append(used, off)
			}
		}
	}
	return ops
}

// genChaos draws operations over a tiny pool of offsets so that duplicates,
// re-use after delivery and collisions are frequent.
func genChaos(r *core.Rng, p *RPlan, fired []int) []ROp {
	n := r.Range(1, core.Scale(40, false))
	pool := []uint32{0, 1, 2, 3, 4, 5}
	if r.Chance(1, 3) {
		pool = append(pool, spanMax, spanMax-1, spanMax-2)
	}
	if r.Chance(1, 3) {
		pool = append(pool, uint32(r.Intn(spanMax)), uint32(r.Intn(1000)))
	}
	types := append(append([]uint16{}, nonCompleting...), completing...)
	types = append(types, tEOE, tEOE, tEOE)
	var ops []ROp
	for i := 0; i < n; i++ {
		switch r.Weighted(70, 8, 8, 2, 2) {
		case 0:
			k := opPushMsg
			if r.Chance(1, 5) {
				k = opPushRaw
			}
			ops = append(ops, ROp{K: k, Off: pool[r.Intn(len(pool))], Typ: types[r.Intn(len(types))]})
		case 1:
			ops = append(ops, ROp{K: opSleep, D: sleepChoices(r, p.Timeout, fired)})
		case 2:
			ops = append(ops, ROp{K: opMaintain})
		case 3:
			ops = append(ops, ROp{K: opPushNil})
			fired[fNilMsg]++
		default:
			ops = append(ops, ROp{K: opPushBad, Off: pool[r.Intn(len(pool))], Typ: uint16(r.Intn(nBadRaw))})
			fired[fBadRaw]++
		}
	}
	return genTail(r, p, ops, fired)
}
