package engines

import (
	"container/heap"
	"fmt"
	"math"
	"sort"
	"strconv"
	"strings"
	"time"

	libaudit "github.com/elastic/go-libaudit/v2"
	"github.com/elastic/go-libaudit/v2/auparse"

	"verifsim/core"
)

// probes of the single-goroutine Reassembler engine
const (
	prOverflowEvict = iota
	prTimeoutEvict
	prCompleteEvict
	prLateDelivered
	prSeqReused
	prSeq0Delivered
	prRolloverBuffered
	prLostReported
	prEOECompleted
	prCloseFlushed
	prMaintainFlushed
	prPushAfterClose
	prHeadIncompleteOverflow
	prSpanEdge
	prExactExpiryInstant
	prLateAfterEviction
	prMultiEvictOneCall
	prWidePair
	prScatter
	prPreParsed
	prBadAccepted
	prDupMsg
	prSoak
	prDecoyHeader
	nRProbes
)

var rProbeNames = []string{"overflow_eviction", "timeout_eviction", "complete_eviction", "late_event_delivered",
	"sequence_reused_after_delivery", "sequence_0_delivered", "rollover_inside_buffer", "events_lost_reported",
	"eoe_completed_buffered_event", "close_flushed_events", "maintain_flushed_events", "push_after_close",
	"overflow_eviction_of_incomplete_head", "window_edge_offset_used", "call_at_exact_expiry_instant",
	"late_arrival_after_eviction", "several_evictions_in_one_call", "two_sequence_numbers_more_than_2^24_apart",
	"history_dealt_onto_3_to_5_far_apart_sequence_clusters", "message_parsed_before_the_first_call_pushed_later", "record_meant_as_unparsable_was_accepted_run_not_judged", "second_message_object_equal_to_the_previous_one", "long_history_of_300_to_70000_events", "pushed_text_quotes_another_audit_header"}

// callback records of one call
type rGroup struct {
	ids   []int
	seqs  []uint32
	ptrOK bool
}

type rCB struct {
	group  *rGroup
	lost   int
	isLost bool
}

type rStream struct {
	kept  [][]*auparse.AuditMessage // the slices as they were handed over (a Stream may keep them)
	keptG []*rGroup
	cur   *[]rCB
	msgs  []*auparse.AuditMessage // by op index (PushMessage only)
	byPtr map[*auparse.AuditMessage]int
	bogus int
}

func parseID(raw string) int {
	i := strings.LastIndex(raw, "id=")
	if i < 0 {
		return -1
	}
	n, err := strconv.Atoi(raw[i+3:])
	if err != nil {
		return -1
	}
	return n
}

func (s *rStream) ReassemblyComplete(msgs []*auparse.AuditMessage) {
	g := &rGroup{ptrOK: true}
	for _, m := range msgs {
		id := -1
		if m != nil {
			// a message object handed to PushMessage is known by its address (two
			// objects may be equal in every field); what Push built is known by its text
			if k, ok := s.byPtr[m]; ok {
				id = k
			} else {
				id = parseID(m.RawData)
				if id >= 0 && id < len(s.msgs) && s.msgs[id] != nil {
					g.ptrOK = false
				}
			}
		}
		g.ids = append(g.ids, id)
		if m != nil {
			g.seqs = append(g.seqs, m.Sequence)
		} else {
			g.seqs = append(g.seqs, 0)
		}
	}
	*s.cur = append(*s.cur, rCB{group: g})
	if len(s.kept) < 200000 {
		s.kept = append(s.kept, msgs)
		s.keptG = append(s.keptG, g)
	}
}

func (s *rStream) EventsLost(count int) {
	*s.cur = append(*s.cur, rCB{isLost: true, lost: count})
}

// instHeap orders model instances by offset (container/heap).
type instHeap []*rInst

func (h instHeap) Len() int           { return len(h) }
func (h instHeap) Less(i, j int) bool { return h[i].off < h[j].off }
func (h instHeap) Swap(i, j int)      { h[i], h[j] = h[j], h[i] }
func (h *instHeap) Push(x any)        { *h = append(*h, x.(*rInst)) }
func (h *instHeap) Pop() any {
	o := *h
	x := o[len(o)-1]
	*h = o[:len(o)-1]
	return x
}

// model instance of a buffered event
type rInst struct {
	seq       uint32
	off       uint32
	firstPush int
	created   int64
	complete  bool
	ids       []int
}

type rDelivered struct {
	off       uint32
	firstPush int
	call      int
}

func satAdd(a, b int64) int64 {
	if b > 0 && a > math.MaxInt64-b {
		return math.MaxInt64
	}
	if b < 0 && a < math.MinInt64-b {
		return math.MinInt64
	}
	return a + b
}

// counterfactual is set while ExecRPlan re-runs a history with another timeout.
var counterfactual bool

// ExecRPlan interprets a plan against a real Reassembler inside the current
// bubble and evaluates the C01 C02 C03 C10 C19 oracles over the history.
func ExecRPlan(p *RPlan, trace bool) *core.Result {
	if p.Soak != nil {
		// a long history, written down as its recipe: expand and interpret as usual
		q := *p
		k := *p.Soak
		k.N, k.Huge = core.LongCap(k.N, 3000), core.LongCap(k.Huge, 3000)
		q.Soak = &k
		q.Ops = expandSoak(&q)
		q.Soak = nil
		r := ExecRPlan(&q, trace && len(q.Ops) < 3000)
		r.Probes[prSoak]++
		r.Long = true
		return r
	}
	res := &core.Result{Probes: make([]int, nRProbes), Faults: make([]int, nRFaults)}
	if len(p.Fired) == nRFaults {
		copy(res.Faults, p.Fired)
	}
	start := time.Now()
	var cbs []rCB
	st := &rStream{cur: &cbs, msgs: make([]*auparse.AuditMessage, len(p.Ops)), byPtr: map[*auparse.AuditMessage]int{}}
	tr := func(f string, a ...any) {
		if trace {
			res.Trace = append(res.Trace, fmt.Sprintf(f, a...))
		}
	}
	h := uint64(14695981039346656037)
	mix := func(v uint64) {
		h ^= v
		h *= 1099511628211
	}

	for _, mx := range []int{p.Max, -1, -2 - p.Max, 1 << 20} {
		if r0, err := libaudit.NewReassembler(mx, time.Duration(p.Timeout), nil); err == nil || r0 != nil {
			res.Add("C19", "nil-stream-accepted", "new", fmt.Sprintf("NewReassembler(%d, %s, nil) accepted a nil Stream", mx, time.Duration(p.Timeout)))
			break
		}
	}
	rawBuf := make([]byte, 128)
	ra, err := libaudit.NewReassembler(p.Max, time.Duration(p.Timeout), st)
	if err != nil {
		res.Add("C19", "constructor-failed", "new", err.Error())
		return res
	}

	// ---- model state (oracle) ----
	buffered := map[uint32]*rInst{}
	deliveredCnt := make([]int, len(p.Ops))
	pushedOK := make([]bool, len(p.Ops)) // non-EOE message accepted before Close
	var delivered []rDelivered
	haveLast := false
	var lastOff uint32
	closed := false
	closeSeen := false
	earlyAtCreation := false
	maxDeliveredOff := int64(-1)
	evictedOffs := map[uint32]bool{}
	viol := func(prop, kind, class, f string, a ...any) {
		for _, v := range res.Violations {
			if v.Property == prop && v.Kind == kind && v.Class == class {
				return
			}
		}
		res.Add(prop, kind, class, fmt.Sprintf(f, a...))
	}
	seqOf := func(off uint32) uint32 {
		if k := uint32(len(p.Scatter)); k != 0 {
			return p.Scatter[off%k] + off/k
		}
		if p.WideB != 0 && off == 1 {
			return p.WideB
		}
		return p.Base + off
	}
	offOf := func(seq uint32) (uint32, bool) {
		if k := uint32(len(p.Scatter)); k != 0 {
			for c, b := range p.Scatter {
				if d := seq - b; d < 1<<16 {
					return d*k + uint32(c), true
				}
			}
			return 0, false
		}
		if p.WideB != 0 {
			if seq == p.WideB {
				return 1, true
			}
			return 0, seq == p.Base
		}
		o := seq - p.Base
		return o, o <= spanMax
	}
	if p.WideB != 0 {
		res.Probes[prWidePair]++
	}
	if len(p.Scatter) != 0 {
		res.Probes[prScatter]++
	}
	// the oldest buffered instance: a min-heap by offset with lazy deletion
	// (an entry counts while the model still holds that very instance)
	var hq instHeap
	head := func() *rInst {
		for len(hq) > 0 {
			if in := hq[0]; buffered[in.seq] == in {
				return in
			}
			heap.Pop(&hq)
		}
		return nil
	}

	// message objects parsed ahead of time (before the first call)
	pre := make([]*auparse.AuditMessage, len(p.Ops))
	for i, op := range p.Ops {
		if op.K == opPushMsg && op.Pre {
			if m, err := auparse.Parse(auparse.AuditMessageType(op.Typ), fmt.Sprintf("audit(%d.%03d:%d): id=%d", 1500000000+i, i%1000, seqOf(op.Off), i)); err == nil {
				pre[i] = m
				res.Probes[prPreParsed]++
			}
		}
	}
	outOfModel := false
	var lastMsg *auparse.AuditMessage
	for i, op := range p.Ops {
		now := int64(time.Since(start))
		cbs = cbs[:0]
		var callErr error
		panicked := ""
		isPush := false
		func() {
			defer func() {
				if r := recover(); r != nil {
					panicked = fmt.Sprint(r)
				}
			}()
			switch op.K {
			case opPushMsg:
				m := &auparse.AuditMessage{RecordType: auparse.AuditMessageType(op.Typ), Sequence: seqOf(op.Off), RawData: "id=" + strconv.Itoa(i)}
				if pre[i] != nil {
					m = pre[i]
				}
				if op.Dup && lastMsg != nil && pre[i] == nil && lastMsg.Sequence == seqOf(op.Off) && uint16(lastMsg.RecordType) == op.Typ {
					c := *lastMsg // equal in every field, another object
					m = &c
					res.Probes[prDupMsg]++
				}
				lastMsg = m
				st.msgs[i] = m
				st.byPtr[m] = i
				ra.PushMessage(m)
				isPush = true
			case opPushRaw:
				// like a netlink receive loop, the caller reuses one buffer
				// for every record and overwrites it after Push returned.
				raw := fmt.Sprintf("audit(%d.%03d:%d): id=%d", 1500000000+i, i%1000, seqOf(op.Off), i)
				if op.Decoy {
					// the record quotes another record's header (a command line, a relayed message)
					raw = fmt.Sprintf("audit(%d.%03d:%d): cmd=\"audit(1400000000.%03d:%d):\" id=%d", 1500000000+i, i%1000, seqOf(op.Off), i%1000, seqOf(op.Off)+7, i)
					res.Probes[prDecoyHeader]++
				}
				n := copy(rawBuf, raw)
				callErr = ra.Push(auparse.AuditMessageType(op.Typ), rawBuf[:n])
				for j := 0; j < n; j++ {
					rawBuf[j] = '#'
				}
				isPush = callErr == nil
			case opPushNil:
				ra.PushMessage(nil)
			case opPushBad:
				// unparsable records: fixed garbage, and records of this very stream
				// (its sequence numbers, a fresh id) with one part of the header damaged
				sq := seqOf(op.Off)
				bad := []string{"", "audit(", "audit(1.2:x): id=1", "garbage", "audit(1.000:99999999999): id=2", "audit(1:2) id=3",
					fmt.Sprintf("audit(1x5.000:%d): id=%d", sq, i), fmt.Sprintf("audit(1500000000.0y0:%d): id=%d", sq, i),
					fmt.Sprintf("audit(1500000000.000:%d: id=%d", sq, i), fmt.Sprintf("audit(1500000000.000:%dz): id=%d", sq, i),
					fmt.Sprintf("node=host(1) audit(1500000000.000:%d): id=%d", sq, i),
					fmt.Sprintf("audit(1500000000.000:%d): id=%d", 1<<32+uint64(sq), i), fmt.Sprintf("audit(1500000000.000:-%d): id=%d", uint64(sq)+1, i),
					fmt.Sprintf("audit(1500000000.000:%d): id=%d", 5<<32+uint64(sq), i),
					// 2^64 + sequence: twenty digits that wrap a 64-bit accumulator back onto the stream's own number
					fmt.Sprintf("audit(1500000000.000:1844674407%010d): id=%d", 3709551616+uint64(sq), i)}[int(op.Typ)%nBadRaw]
				callErr = ra.Push(auparse.AuditMessageType(tSYSCALL), []byte(bad))
				if v := int(op.Typ) % nBadRaw; callErr == nil && (v == 4 || v >= 11) {
					// a well-formed header whose sequence number is not a 32-bit number: whatever
					// sequence the record is filed under, it is not the one it carries
					viol("C01", "sequence-changed", "push", "Push(%q) returned nil: the record's sequence number does not fit 32 bits", bad)
				}
				if callErr == nil {
					// Which texts are parsable is not this engine's business (the
					// properties judged here are about what was pushed): a record
					// the library accepts although this harness meant it as
					// unparsable has a sequence number the model does not know.
					outOfModel = true
				}
			case opSleep:
				time.Sleep(time.Duration(op.D))
			case opMaintain:
				callErr = ra.Maintain()
			case opClose:
				callErr = ra.Close()
			}
		}()
		mix(uint64(op.K)<<40 ^ uint64(op.Off)<<8 ^ uint64(op.Typ))
		mix(uint64(now))
		if callErr != nil {
			mix(0xe44)
		}
		tr("#%d t=%s %s off=%d seq=%d typ=%d d=%s -> err=%v cbs=%d", i, time.Duration(now), ropNames[op.K], op.Off, seqOf(op.Off), op.Typ, time.Duration(op.D), callErr, len(cbs))
		if panicked != "" {
			for _, prop := range []string{"C01", "C02", "C03", "C10", "C19"} {
				viol(prop, "panic", ropNames[op.K], "%s panicked: %s", ropNames[op.K], panicked)
			}
			break
		}
		if outOfModel {
			res.Probes[prBadAccepted]++
			res.TraceHash = h
			return res
		}
		if op.K == opSleep {
			continue
		}
		res.Ops++

		// --- model: effect of the push itself ---
		if isPush {
			// PushMessage keeps working after Close (nothing flushes what it
			// buffers then, but ordering, loss accounting and the buffer bound
			// are promised for every call history).
			if closed {
				res.Probes[prPushAfterClose]++
			}
			seq := seqOf(op.Off)
			if op.Typ == tEOE {
				if in := buffered[seq]; in != nil {
					if !in.complete {
						res.Probes[prEOECompleted]++
					}
					in.complete = true
				}
			} else {
				in := buffered[seq]
				if in == nil {
					in = &rInst{seq: seq, off: op.Off, firstPush: i, created: now}
					buffered[seq] = in
					heap.Push(&hq, in)
					if int64(op.Off) < maxDeliveredOff {
						res.Probes[prLateAfterEviction]++
					}
					if op.Off >= spanMax-2 {
						res.Probes[prSpanEdge]++
					}
				}
				in.ids = append(in.ids, i)
				if completes(op.Typ) {
					in.complete = true
				}
				pushedOK[i] = !closed // delivery by the end is only promised for what was pushed before Close
			}
		}
		if len(buffered) > 1 && len(buffered) <= 64 {
			lo, hi := uint32(math.MaxUint32), uint32(0)
			for s := range buffered {
				if s < lo {
					lo = s
				}
				if s > hi {
					hi = s
				}
			}
			if hi-lo > spanMax {
				res.Probes[prRolloverBuffered]++
			}
		}

		// --- callbacks of this call, in order ---
		lostInCall := 0
		expectedLost := 0
		groupsInCall := 0
		var closeOrder []uint32
		for _, cb := range cbs {
			if cb.isLost {
				mix(0xfff0 ^ uint64(cb.lost)<<16)
				tr("   EventsLost(%d)", cb.lost)
				res.Probes[prLostReported]++
				if cb.lost <= 0 {
					viol("C03", "nonpositive-count", "lost", "EventsLost(%d) in call #%d", cb.lost, i)
				}
				lostInCall += cb.lost
				if closed && (op.K == opClose || op.K == opMaintain) {
					viol("C19", "callback-after-close", ropNames[op.K], "%s after Close called EventsLost(%d)", ropNames[op.K], cb.lost)
				}
				continue
			}
			g := cb.group
			groupsInCall++
			for _, id := range g.ids {
				mix(uint64(id) + 1)
			}
			mix(0xabcd)
			tr("   ReassemblyComplete ids=%v seqs=%v", g.ids, g.seqs)
			if len(g.ids) == 0 {
				// an empty group carries no sequence number; not judged.
				continue
			}
			if !g.ptrOK {
				viol("C01", "foreign-message", "pointer", "callback delivered a message object that is not the one pushed (ids %v)", g.ids)
			}
			// every id known, delivered at most once, one sequence, ascending push order
			okIDs := true
			for k, id := range g.ids {
				if id < 0 || id >= len(p.Ops) || !(p.Ops[id].K == opPushMsg || p.Ops[id].K == opPushRaw) || id > i {
					viol("C01", "unknown-message", "delivery", "callback in call #%d delivered a message that was never pushed (id %d)", i, id)
					okIDs = false
					continue
				}
				deliveredCnt[id]++
				if deliveredCnt[id] > 1 {
					viol("C01", "duplicate-delivery", "delivery", "message #%d delivered %d times (call #%d)", id, deliveredCnt[id], i)
				}
				if p.Ops[id].Typ == tEOE {
					continue
				}
				if g.seqs[k] != seqOf(p.Ops[id].Off) {
					viol("C01", "sequence-changed", "delivery", "message #%d pushed with sequence %d delivered with %d", id, seqOf(p.Ops[id].Off), g.seqs[k])
				}
				if g.seqs[k] != g.seqs[0] {
					viol("C01", "mixed-sequence-group", "grouping", "callback in call #%d mixes sequences %v", i, g.seqs)
				}
				if k > 0 && g.ids[k-1] >= id {
					viol("C01", "push-order-broken", "grouping", "callback in call #%d delivers ids %v not in push order", i, g.ids)
				}
			}
			if !okIDs {
				continue
			}
			seq := g.seqs[0]
			off, inWin := offOf(seq)
			if !inWin {
				continue
			}
			if closed && op.K == opMaintain {
				viol("C19", "callback-after-close", "Maintain", "Maintain after Close delivered sequence %d", seq)
				continue
			}
			if closeSeen && op.K == opClose {
				viol("C19", "callback-after-close", "Close", "second Close delivered sequence %d", seq)
				continue
			}
			in := buffered[seq]
			if in == nil {
				viol("C01", "unbuffered-delivery", "delivery", "call #%d delivered sequence %d which the model does not hold (ids %v)", i, seq, g.ids)
				continue
			}
			// no split / nothing missing / nothing extra
			var nonEOE []int
			for _, id := range g.ids {
				if p.Ops[id].Typ != tEOE {
					nonEOE = append(nonEOE, id)
				}
			}
			if fmt.Sprint(nonEOE) != fmt.Sprint(in.ids) {
				viol("C01", "split-or-incomplete-group", "grouping", "call #%d delivered sequence %d as ids %v but records %v were pushed while it was buffered", i, seq, nonEOE, in.ids)
			}
			occupancy := len(buffered)
			expired := now >= satAdd(in.created, p.Timeout)
			strictlyExpired := now > satAdd(in.created, p.Timeout)
			if op.K != opClose {
				switch {
				case in.complete:
					res.Probes[prCompleteEvict]++
				case occupancy > p.Max:
					res.Probes[prOverflowEvict]++
					res.Probes[prHeadIncompleteOverflow]++
				case expired:
					res.Probes[prTimeoutEvict]++
					if !strictlyExpired {
						res.Probes[prExactExpiryInstant]++
					}
					if op.K == opMaintain {
						res.Probes[prMaintainFlushed]++
					}
				default:
					viol("C10", "evicted-without-cause", ropNames[op.K], "call #%d (%s) at t=%s delivered sequence %d: incomplete, occupancy %d <= maxInFlight %d, created t=%s timeout %s not elapsed",
						i, ropNames[op.K], time.Duration(now), seq, occupancy, p.Max, time.Duration(in.created), time.Duration(p.Timeout))
					if now > in.created {
						viol("C19", "flushed-before-timeout", ropNames[op.K], "call #%d at t=%s delivered incomplete sequence %d created at t=%s before its timeout %s elapsed (occupancy %d <= %d)",
							i, time.Duration(now), seq, time.Duration(in.created), time.Duration(p.Timeout), occupancy, p.Max)
					} else {
						// delivered in the instant it was created: whether that was
						// "on account of time" is decided by a counterfactual run below
						earlyAtCreation = true
					}
				}
			} else {
				closeOrder = append(closeOrder, off)
				res.Probes[prCloseFlushed]++
			}
			// C02: ordering with the late-arrival exception
			// (is there a delivery of an equal or higher offset that was made at or after
			// this event's first push? Deliveries come in call order, so among those with
			// an offset >= off the latest one decides. `delivered` keeps only deliveries that
			// are not dominated by a later one with an equal or higher offset: offsets fall
			// and calls rise from bottom to top, and the answer is found by bisection.)
			if n := sort.Search(len(delivered), func(k int) bool { return delivered[k].off < off }); n > 0 {
				if f := delivered[n-1]; !(in.firstPush > f.call) {
					viol("C02", "order-violation", "order", "sequence offset %d delivered in call #%d after offset %d (delivered in call #%d) although its first record was pushed in call #%d",
						off, i, f.off, f.call, in.firstPush)
				}
			}
			if int64(off) < maxDeliveredOff {
				res.Probes[prLateDelivered]++
			}
			if evictedOffs[off] {
				res.Probes[prSeqReused]++
			}
			if seq == 0 {
				res.Probes[prSeq0Delivered]++
			}
			// C03 model
			if !haveLast {
				haveLast = true
				lastOff = off
			} else if off > lastOff {
				expectedLost += int(off - lastOff - 1)
				lastOff = off
			}
			for len(delivered) > 0 && delivered[len(delivered)-1].off <= off {
				delivered = delivered[:len(delivered)-1]
			}
			delivered = append(delivered, rDelivered{off: off, firstPush: in.firstPush, call: i})
			evictedOffs[off] = true
			if int64(off) > maxDeliveredOff {
				maxDeliveredOff = int64(off)
			}
			delete(buffered, seq)
		}
		if groupsInCall > 1 && op.K != opClose {
			res.Probes[prMultiEvictOneCall]++
		}
		postClose := closed && (op.K == opMaintain || op.K == opClose) // any callback there is already a C19 violation
		if lostInCall != expectedLost && !postClose {
			cls := "gap"
			if lostInCall > expectedLost {
				cls = "overcount"
			} else {
				cls = "undercount"
			}
			viol("C03", "lost-sum-mismatch", cls, "call #%d (%s): EventsLost reported %d in this call, %d sequence numbers were skipped by the events it delivered", i, ropNames[op.K], lostInCall, expectedLost)
			if op.K == opClose && !closeSeen {
				viol("C19", "close-loss-accounting", cls, "Close (call #%d) reported %d lost events, its flush skipped %d sequence numbers", i, lostInCall, expectedLost)
			}
		}

		// --- after-call invariants ---
		switch op.K {
		case opPushMsg, opPushRaw, opPushNil, opPushBad, opMaintain:
			if closed && op.K == opMaintain {
				if callErr == nil {
					viol("C19", "maintain-after-close-ok", "Maintain", "Maintain returned nil after Close (call #%d)", i)
				}
				break
			}
			if op.K == opMaintain && callErr != nil {
				viol("C19", "maintain-error-before-close", "Maintain", "Maintain returned %v before Close", callErr)
			}
			realPush := op.K == opPushMsg || (op.K == opPushRaw && callErr == nil)
			if realPush {
				if len(buffered) > p.Max {
					viol("C10", "buffer-over-limit", "occupancy", "after call #%d %d events are buffered, maxInFlight %d", i, len(buffered), p.Max)
				}
				if hd := head(); hd != nil && hd.complete {
					viol("C10", "complete-head-kept", "head", "after call #%d the oldest buffered event (sequence %d) is complete but was not delivered", i, hd.seq)
				}
			}
			if realPush || op.K == opMaintain {
				if hd := head(); hd != nil && now == satAdd(hd.created, p.Timeout) {
					res.Probes[prExactExpiryInstant]++ // the call was made exactly at the expiry instant of the oldest event
				}
				if hd := head(); hd != nil && now > satAdd(hd.created, p.Timeout) {
					viol("C19", "stale-head-not-flushed", ropNames[op.K], "after %s (call #%d) at t=%s the oldest buffered event (sequence %d, created t=%s, timeout %s) is still buffered",
						ropNames[op.K], i, time.Duration(now), hd.seq, time.Duration(hd.created), time.Duration(p.Timeout))
				}
			}
		case opClose:
			if closeSeen {
				if callErr == nil {
					viol("C19", "second-close-ok", "Close", "second Close returned nil (call #%d)", i)
				}
				break
			}
			if callErr != nil {
				viol("C19", "first-close-failed", "Close", "first Close returned %v", callErr)
			}
			if !sort.SliceIsSorted(closeOrder, func(a, b int) bool { return closeOrder[a] < closeOrder[b] }) {
				viol("C19", "close-order", "Close", "Close delivered offsets %v out of order", closeOrder)
				viol("C02", "order-violation", "close", "Close delivered offsets %v out of order", closeOrder)
			}
			if len(buffered) > 0 {
				var left []uint32
				for s := range buffered {
					left = append(left, s)
				}
				sort.Slice(left, func(a, b int) bool { return left[a] < left[b] })
				viol("C19", "close-left-events", "Close", "Close did not deliver buffered sequences %v", left)
			}
			closed = true
			closeSeen = true
			buffered = map[uint32]*rInst{}
			hq = hq[:0]
		}
		// abstract state: (buffered, complete count, head expired, closed)
		if len(res.Abstract) >= 4000 {
			continue
		}
		nc := 0
		for _, in := range buffered {
			if in.complete {
				nc++
			}
		}
		he := 0
		if hd := head(); hd != nil && now >= satAdd(hd.created, p.Timeout) {
			he = 1
		}
		cl := 0
		if closed {
			cl = 1
		}
		if len(res.Abstract) < 4000 {
			res.Abstract = append(res.Abstract, uint64(len(buffered))<<16|uint64(nc)<<8|uint64(he)<<1|uint64(cl)|uint64(op.K)<<32)
		}
	}
	// end of history
	// a Stream may keep the slices it was given: they are its own from then on
	for gi, kept := range st.kept {
		g := st.keptG[gi]
		same := len(kept) == len(g.ids)
		for k := 0; same && k < len(kept); k++ {
			id := -1
			if m := kept[k]; m != nil {
				if x, ok := st.byPtr[m]; ok {
					id = x
				} else {
					id = parseID(m.RawData)
				}
				if m.Sequence != g.seqs[k] {
					same = false
				}
			}
			if id != g.ids[k] {
				same = false
			}
		}
		if !same {
			viol("C01", "delivered-group-changed-later", "delivery", "the group handed over in callback %d (ids %v, sequences %v) holds other messages at the end of the history", gi, g.ids, g.seqs)
			break
		}
	}
	if closeSeen {
		for id, ok := range pushedOK {
			if ok && deliveredCnt[id] != 1 {
				viol("C01", "message-not-delivered", "delivery", "message #%d (offset %d type %d) pushed before Close was delivered %d times", id, p.Ops[id].Off, p.Ops[id].Typ, deliveredCnt[id])
			}
		}
	}
	if earlyAtCreation && !counterfactual {
		// Same history with another (ordinary, far-away) timeout: if the early
		// delivery disappears, the decision depended on the timeout value, i.e.
		// the event was delivered on account of time before its timeout.
		alt := *p
		alt.Timeout = 3600e9
		if p.Timeout == alt.Timeout {
			alt.Timeout = 7200e9
		}
		counterfactual = true
		r2 := ExecRPlan(&alt, false)
		counterfactual = false
		still := false
		for _, v := range r2.Violations {
			if v.Property == "C10" && v.Kind == "evicted-without-cause" {
				still = true
			}
		}
		if !still {
			viol("C19", "flushed-before-timeout", "timeout-dependent", "an incomplete event was delivered in the instant it was created with timeout %s (no overflow of the buffer); with a timeout of %s the same history does not deliver it: the decision was made on account of time",
				time.Duration(p.Timeout), time.Duration(alt.Timeout))
		}
	}
	res.SimNs = int64(time.Since(start))
	res.TraceHash = h
	res.Steps = len(p.Ops)
	pushes := 0
	for _, o := range p.Ops {
		if o.K == opPushMsg || o.K == opPushRaw {
			pushes++
		}
	}
	res.Nontrivial = pushes >= 3 && len(delivered) >= 2
	return res
}
