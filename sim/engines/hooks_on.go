//go:build verif

package engines

import (
	libaudit "github.com/elastic/go-libaudit/v2"
)

// HooksEnabled reports whether the library was built with the verif tag.
const HooksEnabled = true

func init() {
	libaudit.VerifYield = func(point string) {
		if sc := getActiveSched(); sc != nil {
			if t := sc.Me(); t != nil {
				t.Yield(point)
			}
		}
	}
}
