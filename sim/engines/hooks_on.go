//go:build verif

package engines

import (
	libaudit "github.com/elastic/go-libaudit/v2"
)

// HooksEnabled reports whether the library was built with the verif tag.
const HooksEnabled = true

func init() {
	libaudit.VerifYield = func(point string) {
		if sc := getActiveSched(); sc != nil {
			if t := sc.Me(); t != nil {
				t.Yield(point)
			}
		}
	}
}

// newRealNetlink builds the real NetlinkClient on top of the simulated socket.
func newRealNetlink(sock *simSocket, pid uint32, buf []byte) *libaudit.NetlinkClient {
	return libaudit.NewVerifNetlinkClient(sock, pid, buf, nil)
}
