//go:build verif

package engines

import (
	"io"
	"reflect"
	"strconv"

	libaudit "github.com/elastic/go-libaudit/v2"
	"github.com/elastic/go-libaudit/v2/aucoalesce"
)

// HooksEnabled reports whether the library was built with the verif tag.
const HooksEnabled = true

func init() {
	hook := func(point string) {
		if sc := getActiveSched(); sc != nil {
			if len(point) > 5 && point[:5] == "auto:" {
				// statement-level points inserted by cmd/instrument: each run
				// honours a pseudo-random subset of the sites (density and
				// salt come from the plan)
				d, salt := getAuto()
				if d == 0 {
					return
				}
				x := uint32(2166136261) ^ salt
				for i := 0; i < len(point); i++ {
					x ^= uint32(point[i])
					x *= 16777619
				}
				if x%d != 0 {
					return
				}
			}
			if len(point) > 3 && point[:3] == "in:" && !getInnerYields() {
				return // pre-emption inside critical sections is a per-run knob
			}
			if point == "in:cache-before-store" {
				// Only reached on a cache miss. ResolveIDs walks a Go map, so
				// which lookup misses first is not controllable; yielding
				// here would make the number of scheduling points of an
				// operation depend on map iteration order. The point taken
				// on every lookup ("in:cache-locked") is enough.
				return
			}
			if t := sc.Me(); t != nil {
				switch point {
				case "cache:lookup":
					// Every ID lookup of an operation passes here, including
					// the ones answered without the lock. ResolveIDs looks up
					// the two actor ids first, in a fixed order, and then
					// walks a Go map: only lookups number 1 and 2 are
					// pre-emptible (before the lock and inside it), so that
					// the schedule does not depend on map iteration order.
					t.Local++
					if t.Local > 2 || !getInnerYields() {
						return
					}
				case "in:cache-locked":
					if t.Local > 2 {
						return
					}
				}
				t.Yield(point)
			}
		}
	}
	libaudit.VerifYield = hook
	aucoalesce.VerifYield = hook
	// lock operations announced by the instrumented copy of the library
	libaudit.VerifSync = func(op, name string, root any) {
		sc := getActiveSched()
		if sc == nil {
			return
		}
		t := sc.Me()
		if t == nil {
			return
		}
		key := name
		if v := reflect.ValueOf(root); v.IsValid() && (v.Kind() == reflect.Pointer || v.Kind() == reflect.UnsafePointer) {
			key += "@" + strconv.FormatUint(uint64(v.Pointer()), 16)
		}
		switch op {
		case "lock", "once":
			t.LockReq(key, false)
		case "rlock":
			t.LockReq(key, true)
		case "unlock", "onced":
			t.UnlockNote(key, false)
		case "runlock":
			t.UnlockNote(key, true)
		}
	}
}

// newRealNetlink builds the real NetlinkClient on top of the simulated socket.
func newRealNetlink(sock *simSocket, pid uint32, buf []byte, resp io.Writer) *libaudit.NetlinkClient {
	return libaudit.NewVerifNetlinkClient(sock, pid, buf, resp)
}

// setRealSeq fast-forwards the client's sequence counter.
func setRealSeq(c *libaudit.NetlinkClient, seq uint32) { libaudit.VerifSetSequence(c, seq) }

// resetCoalesceGlobals gives every run fresh package-level ID caches.
func resetCoalesceGlobals() { aucoalesce.VerifResetCaches() }
