package engines

import (
	"fmt"
	"sort"
	"strconv"
	"time"

	libaudit "github.com/elastic/go-libaudit/v2"
	"github.com/elastic/go-libaudit/v2/auparse"

	"verifsim/core"
)

// COp is one operation of a task in the concurrent Reassembler engine.
type COp struct {
	K   int    `json:"k"` // opPushMsg opPushRaw opSleep opMaintain opClose
	Off uint32 `json:"off,omitempty"`
	Typ uint16 `json:"typ,omitempty"`
	D   int64  `json:"d,omitempty"`
	Dup bool   `json:"dup,omitempty"` // PushMessage: the message equals, in every field, the one of the same task's previous PushMessage with this offset and type (another object)
}

// CRe is a re-entrant action: the N-th ReassemblyComplete callback of the run
// (counted globally) calls back into the Reassembler before it returns.
type CRe struct {
	N   int    `json:"n"`
	K   int    `json:"k"`
	Off uint32 `json:"off,omitempty"`
	Typ uint16 `json:"typ,omitempty"`
}

// CPlan is a plan of the concurrent engine (E2).
type CPlan struct {
	Max       int      `json:"max_in_flight"`
	Timeout   int64    `json:"timeout_ns"`
	Base      uint32   `json:"seq_base"`
	Tasks     [][]COp  `json:"tasks"`
	Reenter   []CRe    `json:"reenter"`
	Tape      []uint16 `json:"tape"`
	Strategy  int      `json:"strategy"`
	StickyMod int      `json:"sticky_mod"`
	Inner     bool     `json:"inner_yields"` // also pre-empt inside the list's critical sections
	Auto      uint32   `json:"auto_density"` // 0: off; d: honour statement-level points whose hash is 0 mod d
	AutoSalt  uint32   `json:"auto_salt"`
	// Preload: so many complete events (a third of them with three records) are
	// pushed through the Reassembler by the driver before the tasks exist: what a
	// long-running process has accumulated when the interesting moment comes.
	Preload int `json:"preload,omitempty"`
	// PreOpen: so many further events are left open (one record, no terminator)
	// by the preload, in a Reassembler with room for them; whoever closes has
	// them all to deliver.
	PreOpen int  `json:"pre_open,omitempty"`
	Ticker  bool `json:"ticker"` // one extra task calls Maintain every 500 ms (as cmd/auparse does)
	Ticks   int  `json:"ticks"`
}

func (p *CPlan) Valid() bool {
	if p.Max < 0 || (p.Max > 64 && p.PreOpen == 0) || p.Max > 6000 || len(p.Tasks) > 6 || p.Ticks < 0 || p.Ticks > 20 || p.StickyMod < 0 || p.Preload < 0 || p.Preload > 70000 || p.PreOpen < 0 || p.PreOpen > 5000 {
		return false
	}
	if p.PreOpen > 0 && (p.Preload == 0 || p.Max < p.PreOpen+8 || p.Timeout < 3600e9 || p.Auto != 0 || p.Inner) {
		return false // (statement-level pre-emption inside a flush of thousands of events would be thousands of steps)
	}
	for _, t := range p.Tasks {
		if len(t) > 40 {
			return false
		}
		for _, o := range t {
			if o.Off > spanMax || o.D < 0 || !(o.K == opPushMsg || o.K == opPushRaw || o.K == opSleep || o.K == opMaintain || o.K == opClose || o.K == opPushBad) {
				return false
			}
		}
	}
	for _, re := range p.Reenter {
		if re.N < 0 || re.Off > spanMax || !(re.K == opPushMsg || re.K == opMaintain || re.K == opClose) {
			return false
		}
	}
	return true
}

const (
	cprSwitchInside = iota
	cprReentered
	cprCloseRace
	cprLostWakeBuffered
	cprDetachedDelivery
	cprTwoClosers
	cprLockBlocked
	cprKeyWait
	cprPreload
	cprQuiescentHeld
	nCProbes
)

var cProbeNames = []string{"context_switch_at_internal_yield", "callback_reentered_reassembler", "close_invoked_while_other_call_in_flight",
	"message_left_buffered_push_returned_after_close", "event_delivered_after_close_returned", "two_or_more_close_calls", "task_seen_blocked_on_real_lock", "task_parked_waiting_for_modelled_lock", "reassembler_preloaded_with_300_to_70000_events", "events_still_held_at_quiescence_judged_for_occupancy"}

var cFaultNames = []string{"stalled_task", "clock_step", "reentrant_callback", "already_expired_timeout", "concurrent_close", "statement_level_preemption"}

const (
	cfStall = iota
	cfClock
	cfReenter
	cfExpired
	cfConcClose
	cfAuto
	nCFaults
)

// history event kinds of E2
const (
	evCall = iota + 1
	evRet
	evGroup
	evMsg
	evLost
	evPanic
)

// GenCPlan draws a concurrent plan: 2-4 tasks with short programs over a few
// sequence numbers, re-entrant callbacks, a schedule tape and a strategy.
func GenCPlan(r *core.Rng) *CPlan {
	p := &CPlan{}
	p.Max = core.Pick(r, 0, 1, 1, 2, 2, 3, 5)
	p.Timeout = core.Pick[int64](r, -1e9, 0, 1e6, 50e6, 2e9, 3600e9, 3600e9)
	p.Base = core.Pick(r, uint32(0), 1, 1<<32-2, r.U32())
	nt := core.Pick(r, 2, 2, 2, 3, 3, 4)
	noffs := core.Pick(r, 1, 2, 3, 4)
	closers := 0
	for t := 0; t < nt; t++ {
		var ops []COp
		n := r.Range(1, core.Scale(4, false))
		for i := 0; i < n; i++ {
			switch r.Weighted(60, 12, 10, 8) {
			case 0:
				k := opPushMsg
				if r.Chance(1, 8) {
					k = opPushRaw
				}
				typ := core.Pick[uint16](r, tSYSCALL, tSYSCALL, tPATH, tPROCTITLE, tEOE, tUSERAUTH, tCWD)
				if r.Chance(1, 25) {
					k, typ = opPushBad, uint16(r.Intn(5))
				}
				ops = append(ops, COp{K: k, Off: uint32(r.Intn(noffs)), Typ: typ})
				if k == opPushMsg && r.Chance(1, 12) && len(ops) < 38 {
					d := ops[len(ops)-1]
					d.Dup = true
					ops = append(ops, d)
				}
			case 1:
				ops = append(ops, COp{K: opMaintain})
			case 2:
				ops = append(ops, COp{K: opClose})
				closers++
			default:
				ops = append(ops, COp{K: opSleep, D: core.Pick[int64](r, 1, 1e6, 50e6, 500e6, 2e9, 2e9+1)})
			}
		}
		p.Tasks = append(p.Tasks, ops)
	}
	if closers == 0 && r.Chance(3, 4) {
		t := r.Intn(nt)
		p.Tasks[t] = append(p.Tasks[t], COp{K: opClose})
	}
	if r.Chance(1, 3) {
		for k := r.Range(1, 3); k > 0; k-- {
			re := CRe{N: r.Intn(4)}
			switch r.Intn(3) {
			case 0:
				re.K = opPushMsg
				re.Off = uint32(r.Intn(noffs + 1))
				re.Typ = core.Pick[uint16](r, tSYSCALL, tPROCTITLE, tUSERAUTH, tEOE)
			case 1:
				re.K = opMaintain
			default:
				re.K = opClose
			}
			p.Reenter = append(p.Reenter, re)
		}
	}
	if r.Chance(1, 400) {
		p.Preload = core.Pick(r, 300, 600, 1100, 2100, 4200, 9000, 17000, 33000, 66000, 70000)
		if r.Chance(1, 3) {
			p.PreOpen = core.Pick(r, 100, 300, 520, 700, 1100, 2100)
			p.Max = p.PreOpen + core.Pick(r, 8, 64, 2000)
			p.Timeout = 3600e9
			if closers == 0 {
				p.Tasks[0] = append(p.Tasks[0], COp{K: opClose})
			}
		}
	}
	p.Ticker = r.Chance(1, 5)
	if p.Ticker {
		p.Ticks = r.Range(1, 6)
	}
	p.Strategy = r.Intn(2)
	p.StickyMod = core.Pick(r, 2, 3, 5, 8)
	p.Inner = r.Chance(1, 3)
	p.Auto = core.Pick(r, uint32(0), 0, 0, 1, 2, 3, 5, 8)
	p.AutoSalt = r.U32()
	n := r.Range(0, 80)
	if p.Auto != 0 {
		n = r.Range(20, 200)
	}
	for i := 0; i < n; i++ {
		p.Tape = append(p.Tape, uint16(r.Intn(1<<16)))
	}
	if p.PreOpen > 0 {
		p.Auto, p.Inner = 0, false
	}
	return p
}

// GenCPlanFirst draws the plan for the first run of a worker process: every
// task begins with the same kind of call (a raw record, an unparsable raw
// record, a message), so that whatever the library sets up on first use of
// that path is set up by concurrent callers.
func GenCPlanFirst(r *core.Rng) *CPlan {
	p := GenCPlan(r)
	for len(p.Tasks) > 3 {
		p.Tasks = p.Tasks[:len(p.Tasks)-1]
	}
	first := COp{K: core.Pick(r, opPushBad, opPushBad, opPushRaw, opPushMsg), Typ: tSYSCALL}
	if first.K == opPushBad {
		first.Typ = uint16(r.Intn(5))
	}
	for t := range p.Tasks {
		f := first
		f.Off = uint32(t % 2)
		p.Tasks[t] = append([]COp{f}, p.Tasks[t]...)
		if len(p.Tasks[t]) > 40 {
			p.Tasks[t] = p.Tasks[t][:40]
		}
	}
	if len(p.Tape) < 40 {
		for i := 0; i < 40; i++ {
			p.Tape = append(p.Tape, uint16(r.Intn(1<<16)))
		}
	}
	return p
}

// shared, task-visible state of one E2 run. All writes go through
// //go:norace methods (the scheduler's hand-offs are hidden from TSan).
type cShared struct {
	cbCount int
}

//go:norace
func (s *cShared) nextCB() int {
	n := s.cbCount
	s.cbCount++
	return n
}

type cStream struct {
	pre      int                       // > 0 while the driver preloads: records delivered so far (nothing is recorded)
	preLate  int                       // preloaded records delivered after the preload (those left open)
	kept     [][]*auparse.AuditMessage // some of the slices handed over, as a Stream may keep them
	keptCopy [][]*auparse.AuditMessage // what they held then
	h        *core.Hist
	sc       *core.Sched
	sh       *cShared
	plan     *CPlan
	ra       **libaudit.Reassembler
	reMsg    []*auparse.AuditMessage
	start    time.Time
}

// msgIDs maps the message objects handed to PushMessage in the current run to
// their ids (two objects may be equal in every field). It is filled before the
// tasks exist and only read afterwards.
var msgIDs map[*auparse.AuditMessage]int

func msgID(m *auparse.AuditMessage) int {
	if m == nil {
		return -1
	}
	if id, ok := msgIDs[m]; ok {
		return id
	}
	return parseID(m.RawData)
}

func (s *cStream) ReassemblyComplete(msgs []*auparse.AuditMessage) {
	if s.pre > 0 {
		s.pre += len(msgs)
		if s.pre%37 == 0 && len(s.kept) < 4096 {
			s.keep(msgs)
		}
		return
	}
	if len(msgs) > 0 && msgs[0] != nil && msgs[0].RawData == "pre" {
		s.notePreLate(len(msgs)) // left open by the preload: counted, not recorded one by one
		return
	}
	if len(s.kept) < 4096 {
		s.keep(msgs)
	}
	n := s.sh.nextCB()
	s.h.Rec(evGroup, int64(n), int64(len(msgs)), 0, 0, "")
	for _, m := range msgs {
		var seq int64 = -1
		if m != nil {
			seq = int64(m.Sequence)
		}
		s.h.Rec(evMsg, int64(n), int64(msgID(m)), seq, 0, "")
	}
	if t := s.sc.Me(); t != nil {
		t.Yield("cb")
	}
	for i, re := range s.plan.Reenter {
		if re.N != n {
			continue
		}
		opid := int64(10000 + i)
		s.h.Rec(evCall, opid, int64(re.K), int64(time.Since(s.start)), 1, "")
		var err error
		switch re.K {
		case opPushMsg:
			(*s.ra).PushMessage(s.reMsg[i])
		case opMaintain:
			err = (*s.ra).Maintain()
		case opClose:
			err = (*s.ra).Close()
		}
		e := int64(0)
		if err != nil {
			e = 1
		}
		s.h.Rec(evRet, opid, e, 0, 0, "")
	}
}

//go:norace
func (s *cStream) keep(msgs []*auparse.AuditMessage) {
	s.kept = append(s.kept, msgs)
	s.keptCopy = append(s.keptCopy, append([]*auparse.AuditMessage(nil), msgs...))
}

//go:norace
func (s *cStream) notePreLate(n int) { s.preLate += n }

// keptIntact reports the first kept slice whose elements are no longer the
// messages it was handed over with (-1: all intact).
//
//go:norace
func (s *cStream) keptIntact() int {
	for i, k := range s.kept {
		c := s.keptCopy[i]
		if len(k) != len(c) {
			return i
		}
		for j := range k {
			if k[j] != c[j] {
				return i
			}
		}
	}
	return -1
}

func (s *cStream) EventsLost(count int) {
	if s.pre > 0 {
		return
	}
	s.h.Rec(evLost, int64(count), 0, 0, 0, "")
	if t := s.sc.Me(); t != nil {
		t.Yield("lost")
	}
}

var concHist = core.NewHist(8192)

// ExecCPlanFor returns the interpreter labelled for a property. C11 judges
// everything; C19 (which also quantifies over Maintain/Close arriving from a
// ticker goroutine and from callbacks) only keeps the delivery verdicts:
// every message pushed before Close delivered exactly once, nothing twice.
func ExecCPlanFor(prop string) func(p *CPlan, trace bool) *core.Result {
	return func(p *CPlan, trace bool) *core.Result {
		concProp = prop
		res := ExecCPlan(p, trace)
		if prop == "C11" {
			var keep []core.Violation
			for _, v := range res.Violations {
				if v.Kind != "close-order" && v.Property != "C10" { // C11 does not speak about order, nor about occupancy
					keep = append(keep, v)
				}
			}
			res.Violations = keep
			return res
		}
		var keep []core.Violation
		for _, v := range res.Violations {
			switch v.Kind {
			case "message-not-delivered", "duplicate-delivery", "unknown-message":
				v.Property = prop
				keep = append(keep, v)
			case "buffer-over-limit", "complete-head-kept":
				if prop == "C10" {
					keep = append(keep, v)
				}
			case "close-order":
				// "Close delivers every buffered event once, in order" is C19's
				if prop == "C19" {
					v.Property = prop
					keep = append(keep, v)
				}
			}
		}
		res.Violations = keep
		return res
	}
}

// concProp labels deadlock verdicts (the process is abandoned from inside).
var concProp = "C11"

// ExecCPlan runs a concurrent plan under the seeded scheduler.
func ExecCPlan(p *CPlan, trace bool) *core.Result {
	res := &core.Result{Probes: make([]int, nCProbes), Faults: make([]int, nCFaults)}
	h := concHist
	h.Reset()
	sc := core.NewSched(h, p.Tape, 8000)
	sc.Strategy = p.Strategy
	sc.StickyMod = p.StickyMod
	start := sc.Start
	sh := &cShared{}
	var ra *libaudit.Reassembler
	st := &cStream{h: h, sc: sc, sh: sh, plan: p, ra: &ra, start: start}
	for i, re := range p.Reenter {
		var m *auparse.AuditMessage
		if re.K == opPushMsg {
			m = &auparse.AuditMessage{RecordType: auparse.AuditMessageType(re.Typ), Sequence: p.Base + re.Off, RawData: "id=" + strconv.Itoa(10000+i)}
		}
		st.reMsg = append(st.reMsg, m)
	}
	ra, err := libaudit.NewReassembler(p.Max, time.Duration(p.Timeout), st)
	if err != nil {
		res.Add("C11", "constructor-failed", "new", err.Error())
		return res
	}
	if p.Preload > 0 {
		res.Long = true
		pre := core.LongCap(p.Preload, 3000)
		st.pre = 1
		pushed := 0
		sq := p.Base - uint32(pre+p.PreOpen) - 16 // older than anything the tasks push
		for j := 0; j < pre; j++ {
			if j%3 == 0 {
				for _, typ := range []uint16{tSYSCALL, tPATH, tPROCTITLE} {
					ra.PushMessage(&auparse.AuditMessage{RecordType: auparse.AuditMessageType(typ), Sequence: sq + uint32(j), RawData: "pre"})
					pushed++
				}
			} else {
				ra.PushMessage(&auparse.AuditMessage{RecordType: auparse.AuditMessageType(tUSERAUTH), Sequence: sq + uint32(j), RawData: "pre"})
				pushed++
			}
			if j%1000 == 999 {
				ra.Maintain()
			}
		}
		if st.pre-1 != pushed {
			res.Add("C11", "message-not-delivered", "preload", fmt.Sprintf("%d records of %d complete events were pushed by one goroutine before the tasks started, %d were delivered", pushed, pre, st.pre-1))
		}
		for j := 0; j < p.PreOpen; j++ {
			ra.PushMessage(&auparse.AuditMessage{RecordType: auparse.AuditMessageType(tSYSCALL), Sequence: sq + uint32(pre+j), RawData: "pre"})
		}
		if st.pre-1 != pushed {
			res.Add("C11", "message-not-delivered", "preload", fmt.Sprintf("%d unfinished events pushed into a Reassembler with room for %d: %d records were delivered", p.PreOpen, p.Max, st.pre-1-pushed))
		}
		st.pre = 0
		res.Probes[cprPreload]++
	}
	// pre-create every message before the tasks are forked.
	ids := map[*auparse.AuditMessage]int{}
	msgs := make([][]*auparse.AuditMessage, len(p.Tasks))
	for ti, ops := range p.Tasks {
		msgs[ti] = make([]*auparse.AuditMessage, len(ops))
		for oi, op := range ops {
			if op.K == opPushMsg {
				msgs[ti][oi] = &auparse.AuditMessage{RecordType: auparse.AuditMessageType(op.Typ), Sequence: p.Base + op.Off, RawData: "id=" + strconv.Itoa(ti*100+oi)}
				if op.Dup {
					for pj := oi - 1; pj >= 0; pj-- {
						if q := ops[pj]; q.K == opPushMsg && q.Off == op.Off && q.Typ == op.Typ {
							c := *msgs[ti][pj] // equal in every field, another object
							msgs[ti][oi] = &c
							break
						}
					}
				}
				ids[msgs[ti][oi]] = ti*100 + oi
			}
		}
	}
	setMsgIDs(ids)
	for ti := range p.Tasks {
		ti := ti
		ops := p.Tasks[ti]
		sc.Go("task"+strconv.Itoa(ti), func(t *core.Task) {
			for oi, op := range ops {
				opid := int64(ti*100 + oi)
				if op.K == opSleep {
					t.Sleep(time.Duration(op.D))
					continue
				}
				t.Yield("op")
				h.Rec(evCall, opid, int64(op.K), int64(time.Since(start)), 0, "")
				var err error
				switch op.K {
				case opPushMsg:
					ra.PushMessage(msgs[ti][oi])
				case opPushRaw:
					raw := fmt.Sprintf("audit(%d.%03d:%d): id=%d", 1500000000, 0, p.Base+op.Off, opid)
					err = ra.Push(auparse.AuditMessageType(op.Typ), []byte(raw))
				case opPushBad:
					// an unparsable record of this stream (Typ picks which part of the header is damaged)
					sq := p.Base + op.Off
					raw := []string{fmt.Sprintf("node=host(1) audit(1500000000.000:%d): id=%d", sq, opid), "garbage", fmt.Sprintf("audit(1x5.000:%d): id=%d", sq, opid),
						fmt.Sprintf("audit(1500000000.000:%dz): id=%d", sq, opid), ""}[int(op.Typ)%5]
					err = ra.Push(auparse.AuditMessageType(tSYSCALL), []byte(raw))
				case opMaintain:
					err = ra.Maintain()
				case opClose:
					err = ra.Close()
				}
				e := int64(0)
				if err != nil {
					e = 1
				}
				h.Rec(evRet, opid, e, 0, 0, "")
			}
		})
	}
	if p.Ticker {
		sc.Go("ticker", func(t *core.Task) {
			for k := 0; k < p.Ticks; k++ {
				t.Sleep(500 * time.Millisecond)
				opid := int64(900 + k)
				h.Rec(evCall, opid, opMaintain, int64(time.Since(start)), 0, "")
				err := ra.Maintain()
				e := int64(0)
				if err != nil {
					e = 1
				}
				h.Rec(evRet, opid, e, 0, 0, "")
				if err != nil {
					return
				}
			}
		})
	}
	setInnerYields(p.Inner)
	setAuto(p.Auto, p.AutoSalt)
	setActiveSched(sc)
	verdict := sc.Run()
	setActiveSched(nil)
	setInnerYields(false)
	setAuto(0, 0)
	res.Verdict = verdict
	res.SchedHash = sc.SchedHash
	res.Steps = sc.Steps
	res.SimNs = int64(time.Since(start))
	res.Probes[cprLockBlocked] += sc.LockBlocks
	res.Probes[cprKeyWait] += sc.KeyWaits
	if p.Auto != 0 {
		res.Faults[cfAuto]++
	}
	res.Faults[cfClock] += sc.ClockJumps
	if len(p.Reenter) > 0 {
		res.Faults[cfReenter]++
	}
	if p.Timeout <= 0 {
		res.Faults[cfExpired]++
	}
	if p.Strategy == 1 {
		res.Faults[cfStall]++
	}

	evs := h.Events()
	if trace {
		for _, e := range evs {
			res.Trace = append(res.Trace, fmtCEv(e))
		}
		res.Trace = append(res.Trace, "verdict="+strconv.Itoa(int(verdict))+" "+sc.Describe())
	}
	res.TraceHash = h.Hash64()
	if h.Overflow() {
		res.VerdictMsg = "history overflow"
	}
	switch verdict {
	case core.VerdictDeadlock:
		v := core.Violation{Property: concProp, Kind: "deadlock", Class: "lock", Detail: "every unfinished task is blocked on a lock: " + sc.Describe()}
		core.AbandonDeadlock(v, res.Trace)
	case core.VerdictStuck:
		fmt.Println("SIM-STUCK", sc.Describe())
		core.AbandonInternal("simulator stuck: lock held across a sleep: " + sc.Describe())
	case core.VerdictStepCap:
		res.Add(concProp, "no-termination", "steps", "step cap reached with runnable tasks: "+sc.Describe())
		core.AbandonDeadlock(res.Violations[len(res.Violations)-1], res.Trace)
	}
	for _, t := range sc.Tasks {
		if t.Panic != "" {
			res.Add("C11", "panic", "task", "task "+t.Name+" panicked: "+t.Panic)
		}
	}
	judgeC11(p, evs, res, sc, st)
	return res
}

func fmtCEv(e core.Ev) string {
	switch e.K {
	case evCall:
		re := ""
		if e.D == 1 {
			re = " (re-entrant)"
		}
		return fmt.Sprintf("step %d task %d: call op#%d %s t=%s%s", e.Step, e.Task, e.A, ropNames[e.B], time.Duration(e.C), re)
	case evRet:
		return fmt.Sprintf("step %d task %d: return op#%d err=%d", e.Step, e.Task, e.A, e.B)
	case evGroup:
		return fmt.Sprintf("step %d task %d: ReassemblyComplete #%d with %d messages", e.Step, e.Task, e.A, e.B)
	case evMsg:
		return fmt.Sprintf("step %d task %d:    message id=%d seq=%d (callback #%d)", e.Step, e.Task, e.B, e.C, e.A)
	case evLost:
		return fmt.Sprintf("step %d task %d: EventsLost(%d)", e.Step, e.Task, e.A)
	}
	return fmt.Sprintf("%+v", e)
}

func sortedOpIDs[V any](m map[int64]V) []int64 {
	ids := make([]int64, 0, len(m))
	for id := range m {
		ids = append(ids, id)
	}
	sort.Slice(ids, func(a, b int) bool { return ids[a] < ids[b] })
	return ids
}

// judgeC11 evaluates the C11 oracle over the totally ordered history.
func judgeC11(p *CPlan, evs []core.Ev, res *core.Result, sc *core.Sched, st *cStream) {
	type opInfo struct {
		k         int
		off       uint32
		typ       uint16
		call, ret int
		err       bool
		known     bool
		reentrant bool
	}
	ops := map[int64]*opInfo{}
	for ti, t := range p.Tasks {
		for oi, o := range t {
			ops[int64(ti*100+oi)] = &opInfo{k: o.K, off: o.Off, typ: o.Typ, call: -1, ret: -1, known: true}
		}
	}
	for i, re := range p.Reenter {
		ops[int64(10000+i)] = &opInfo{k: re.K, off: re.Off, typ: re.Typ, call: -1, ret: -1, known: true, reentrant: true}
	}
	for k := 0; k < p.Ticks; k++ {
		ops[int64(900+k)] = &opInfo{k: opMaintain, call: -1, ret: -1, known: true}
	}
	delivered := map[int64]int{}
	groupSeq := map[int64]int64{}
	inflight := 0
	for i, e := range evs {
		switch e.K {
		case evCall:
			if o := ops[e.A]; o != nil {
				o.call = i
				if o.k == opClose && inflight > 0 {
					res.Probes[cprCloseRace]++
				}
			}
			inflight++
			if e.D == 1 {
				res.Probes[cprReentered]++
			}
		case evRet:
			if o := ops[e.A]; o != nil {
				o.ret = i
				o.err = e.B != 0
			}
			inflight--
		case evMsg:
			id := e.B
			o := ops[id]
			if o != nil && o.k == opPushBad && o.call >= 0 && o.call <= i && (o.ret < 0 || !o.err) {
				// a record this harness meant as unparsable was accepted: it was pushed,
				// with a sequence number the model does not know
				delivered[id]++
				if delivered[id] > 1 {
					res.Add("C11", "duplicate-delivery", "delivery", fmt.Sprintf("message id %d delivered %d times", id, delivered[id]))
				}
				continue
			}
			if o == nil || !(o.k == opPushMsg || o.k == opPushRaw) || o.call < 0 || o.call > i {
				res.Add("C11", "unknown-message", "delivery", fmt.Sprintf("callback #%d delivered id %d which was not pushed before", e.A, id))
				continue
			}
			delivered[id]++
			if delivered[id] > 1 {
				res.Add("C11", "duplicate-delivery", "delivery", fmt.Sprintf("message id %d delivered %d times", id, delivered[id]))
			}
			if s, ok := groupSeq[e.A]; ok && s != e.C {
				res.Add("C11", "mixed-sequence-group", "grouping", fmt.Sprintf("callback #%d mixes sequences %d and %d", e.A, s, e.C))
			}
			groupSeq[e.A] = e.C
			if uint32(e.C) != p.Base+o.off {
				res.Add("C11", "sequence-changed", "delivery", fmt.Sprintf("message id %d delivered with sequence %d", id, e.C))
			}
		}
	}
	// Close accounting
	closeCalls, closeOK := 0, 0
	okClose := -1
	var okCloseRet int
	for _, id := range sortedOpIDs(ops) {
		o := ops[id]
		if o.k == opClose && o.call >= 0 {
			closeCalls++
			if o.ret >= 0 && !o.err {
				closeOK++
				okClose = o.call
				okCloseRet = o.ret
			}
		}
	}
	allReturned := true
	for _, o := range ops {
		if o.call >= 0 && o.ret < 0 {
			allReturned = false
		}
	}
	if closeCalls >= 2 {
		res.Probes[cprTwoClosers]++
		res.Faults[cfConcClose]++
	}
	if allReturned && closeCalls > 0 && closeOK != 1 {
		res.Add("C11", "close-winners", strconv.Itoa(closeOK), fmt.Sprintf("%d Close calls were made and %d returned nil", closeCalls, closeOK))
	}
	// C10 at quiescence: every call has returned and nobody closed, so whatever
	// was pushed and not delivered is what the Reassembler still holds (there is
	// no event that is detached and waiting for its callback any more). It holds
	// at most maxInFlight events, and the oldest of them is not one that carries
	// a terminating record. (Matters after re-entrant pushes: made from inside a
	// callback of Maintain, they have to do their own clean-up.)
	if allReturned && closeCalls == 0 && p.Preload == 0 && p.PreOpen == 0 {
		held := map[uint32]bool{} // offset -> holds a terminating record
		judge := true
		for _, id := range sortedOpIDs(ops) {
			o := ops[id]
			if o.k == opPushBad && o.call >= 0 {
				judge = false // (a record of unknown sequence may have been accepted)
			}
			if !(o.k == opPushMsg || o.k == opPushRaw) || o.call < 0 || o.ret < 0 || o.err || o.typ == tEOE || delivered[id] != 0 {
				continue
			}
			held[o.off] = held[o.off] || o.typ < 1300 || o.typ >= 2100 || o.typ == 1327
		}
		if judge && len(held) > 0 {
			res.Probes[cprQuiescentHeld]++
			lowest := uint32(1<<32 - 1)
			for off := range held {
				if off < lowest {
					lowest = off
				}
			}
			if len(held) > p.Max {
				res.Add("C10", "buffer-over-limit", "quiescent", fmt.Sprintf("all calls have returned, no Close: %d events are still held, maxInFlight is %d", len(held), p.Max))
			} else if held[lowest] {
				res.Add("C10", "complete-head-kept", "quiescent", fmt.Sprintf("all calls have returned, no Close: the oldest event still held (sequence offset %d) carries a terminating record", lowest))
			}
		}
	}
	if i := st.keptIntact(); i >= 0 {
		res.Add("C11", "duplicate-delivery", "kept-slice", fmt.Sprintf("a slice that was handed to the Stream (%d messages) holds other messages at the end of the run", len(st.keptCopy[i])))
	}
	if allReturned && closeOK == 1 && p.PreOpen > 0 && st.preLate != p.PreOpen {
		res.Add("C11", "message-not-delivered", "preload", fmt.Sprintf("%d unfinished events were buffered before Close was invoked; %d of their records were delivered", p.PreOpen, st.preLate))
	}
	if allReturned && closeOK == 1 {
		for _, id := range sortedOpIDs(ops) {
			o := ops[id]
			if !(o.k == opPushMsg || o.k == opPushRaw) || o.call < 0 || o.typ == tEOE || o.err {
				continue
			}
			if o.ret >= 0 && o.ret < okClose {
				if delivered[id] != 1 {
					res.Add("C11", "message-not-delivered", "delivery", fmt.Sprintf("message id %d: push returned (event %d) before Close was invoked (event %d) but it was delivered %d times", id, o.ret, okClose, delivered[id]))
				}
			} else if delivered[id] == 0 {
				res.Probes[cprLostWakeBuffered]++
			}
		}
		for i, e := range evs {
			if e.K == evGroup && i > okCloseRet {
				res.Probes[cprDetachedDelivery]++
				break
			}
		}
	}
	// order of the winning Close's own flush: the groups it delivers itself
	// (recorded by the closing task between the call and the return of that
	// Close, outside any nested re-entrant call) must ascend
	if closeOK == 1 {
		var closer int16 = -1
		depth := 0
		var last int64 = -1
		for i, e := range evs {
			if i == okClose {
				closer = e.Task
				depth = 0
				continue
			}
			if closer < 0 || e.Task != closer {
				continue
			}
			if i >= okCloseRet {
				break
			}
			switch e.K {
			case evCall:
				depth++
			case evRet:
				depth--
			case evMsg:
				if depth != 0 {
					continue
				}
				off := int64(uint32(e.C) - p.Base)
				if off > spanMax {
					continue
				}
				if off < last {
					res.Add("C11", "close-order", "Close", fmt.Sprintf("Close delivered sequence offset %d after offset %d", off, last))
				}
				if off > last {
					last = off
				}
			}
		}
	}
	// reach probes from the schedule
	lastTask := int16(-2)
	inCall := map[int16]int{}
	for _, e := range evs {
		if e.K == evCall {
			inCall[e.Task]++
		}
		if e.K == evRet {
			inCall[e.Task]--
		}
		if e.Task != lastTask && lastTask != -2 {
			for t, n := range inCall {
				if t != e.Task && n > 0 {
					res.Probes[cprSwitchInside]++
					break
				}
			}
		}
		lastTask = e.Task
	}
	ntasks := 0
	for _, t := range p.Tasks {
		if len(t) > 0 {
			ntasks++
		}
	}
	res.Nontrivial = ntasks >= 2 && res.Probes[cprSwitchInside] > 0 && len(delivered) > 0
	res.Ops = len(ops)
}
