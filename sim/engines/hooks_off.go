//go:build !verif

package engines

const HooksEnabled = false
