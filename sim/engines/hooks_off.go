//go:build !verif

package engines

import (
	"io"

	libaudit "github.com/elastic/go-libaudit/v2"
)

const HooksEnabled = false

func newRealNetlink(sock *simSocket, pid uint32, buf []byte, resp io.Writer) *libaudit.NetlinkClient {
	return nil
}

func resetCoalesceGlobals() {}

func setRealSeq(c *libaudit.NetlinkClient, seq uint32) {}
