package engines

import (
	"fmt"
	"strconv"
	"strings"
	"syscall"
	"time"

	libaudit "github.com/elastic/go-libaudit/v2"
	"github.com/elastic/go-libaudit/v2/aucoalesce"
	"github.com/elastic/go-libaudit/v2/auparse"

	"verifsim/core"
	"verifsim/kern"
)

// PRec is one audit record the simulated kernel emits to the audit socket.
type PRec struct {
	Off  uint32 `json:"off"`
	Tmpl int    `json:"tmpl"`
	Var  uint32 `json:"var"`
	At   int64  `json:"at_ns"` // emission time (virtual)
}

// PPlan is a plan of the whole-library pipeline engine (E5): SimKernel emits
// record datagrams -> SimSocket -> real NetlinkClient/AuditClient.Receive ->
// Reassembler.Push -> Stream -> CoalesceMessages, with a Maintain ticker task
// and a closer task.
type PPlan struct {
	Max      int      `json:"max_in_flight"`
	Timeout  int64    `json:"timeout_ns"`
	Base     uint32   `json:"seq_base"`
	Recs     []PRec   `json:"records"`
	Recv     []KRecv  `json:"recv,omitempty"`
	Ticker   bool     `json:"ticker"`
	PollNs   int64    `json:"poll_ns"`
	Coalesce bool     `json:"coalesce"`
	Inner    bool     `json:"inner_yields"`
	Auto     uint32   `json:"auto_density,omitempty"`
	AutoSalt uint32   `json:"auto_salt,omitempty"`
	Tape     []uint16 `json:"tape,omitempty"`
	Strategy int      `json:"strategy,omitempty"`
	Fired    []int    `json:"fired,omitempty" shrink:"-"`
}

func (p *PPlan) Valid() bool {
	if p.Max < 0 || p.Max > 64 || len(p.Recs) > 400 || p.PollNs < 1 || p.PollNs > 10e9 {
		return false
	}
	for _, r := range p.Recs {
		if r.Off > spanMax || r.Tmpl < 0 || r.Tmpl >= len(qTemplates) || r.At < 0 || r.At > 3600e9 {
			return false
		}
	}
	for _, r := range p.Recv {
		if r.N < 0 || r.N > 9 {
			return false
		}
	}
	return true
}

var pFaultNames = []string{"record_lost_in_kernel", "terminator_lost", "event_lost_gap", "record_duplicated", "records_reordered", "recv_eintr", "recv_eagain", "burst_without_delay", "emission_pause_beyond_timeout"}

const (
	pfDropRec = iota
	pfDropTerm
	pfDropEvent
	pfDup
	pfReorder
	pfEintr
	pfEagain
	pfBurst
	pfPause
	nPFaults
)

var pProbeNames = []string{"events_delivered", "delivered_by_ticker_task", "delivered_by_closer_task", "events_lost_reported", "coalesced_events", "coalesce_errors",
	"receiver_polled_empty_socket", "lost_total_judged"}

const (
	ppDelivered = iota
	ppByTicker
	ppByClose
	ppLost
	ppCoalesced
	ppCoalesceErr
	ppPolled
	ppLostJudged
	nPProbes
)

// GenPPlan draws a kernel record stream with loss, duplication and
// reordering, emission times, receive faults and a schedule.
func GenPPlan(r *core.Rng) *PPlan {
	p := &PPlan{}
	p.Max = core.Pick(r, 0, 1, 2, 3, 5, 8, 16)
	p.Timeout = core.Pick[int64](r, 0, 1e6, 50e6, 2e9, 2e9, 3600e9)
	p.Base = core.Pick(r, uint32(0), 1, 1<<32-3, r.U32())
	p.Ticker = r.Chance(1, 2)
	p.PollNs = core.Pick[int64](r, 1e6, 10e6, 100e6, 500e6)
	p.Coalesce = r.Chance(2, 3)
	p.Inner = r.Chance(1, 4)
	p.Auto = core.Pick(r, uint32(0), 0, 0, 2, 5, 11)
	p.AutoSalt = r.U32()
	fired := make([]int, nPFaults)
	nEv := r.Range(1, core.Scale(10, false))
	pDrop := core.Pick(r, 0, 5, 15)
	pDropTerm := core.Pick(r, 0, 20, 50)
	pGap := core.Pick(r, 0, 15, 40)
	pDup := core.Pick(r, 0, 5, 15)
	pReorder := core.Pick(r, 0, 10, 30)
	burst := r.Chance(1, 2)
	if burst {
		fired[pfBurst]++
	}
	off := uint32(r.Intn(3))
	var at int64
	var recs []PRec
	for e := 0; e < nEv; e++ {
		if e > 0 {
			off++
			if r.Chance(pGap, 100) {
				off += uint32(r.Range(1, 5))
				fired[pfDropEvent]++
			}
		}
		var tm []int
		if r.Chance(1, 3) {
			tm = []int{core.Pick(r, 7, 8, 9, 10, 12, 13)}
		} else {
			tm = []int{0}
			if r.Chance(1, 2) {
				tm = append(tm, 1)
			}
			for k := r.Intn(3); k > 0; k-- {
				tm = append(tm, 2)
			}
			if r.Chance(1, 3) {
				tm = append(tm, 3)
			}
			if r.Chance(1, 4) {
				tm = append(tm, 4)
			}
			term := r.Intn(3)
			if r.Chance(pDropTerm, 100) {
				term = 3
				fired[pfDropTerm]++
			}
			switch term {
			case 0:
				tm = append(tm, 5)
			case 1:
				tm = append(tm, 16)
			case 2:
				tm = append(tm, 5, 16)
			}
		}
		for _, t := range tm {
			if !burst {
				at += core.Pick[int64](r, 0, 1e3, 1e6, 20e6)
			}
			if r.Chance(1, 40) {
				at += p.Timeout/2 + core.Pick[int64](r, 1e6, 3e9)
				fired[pfPause]++
			}
			if r.Chance(pDrop, 100) {
				fired[pfDropRec]++
				continue
			}
			recs = append(recs, PRec{Off: off, Tmpl: t, Var: r.U32(), At: at})
			if r.Chance(pDup, 100) {
				recs = append(recs, PRec{Off: off, Tmpl: t, Var: r.U32(), At: at})
				fired[pfDup]++
			}
		}
	}
	for i := 0; i+1 < len(recs); i++ {
		if r.Chance(pReorder, 300) {
			j := i + r.Range(1, 3)
			if j >= len(recs) {
				j = len(recs) - 1
			}
			recs[i].Off, recs[j].Off = recs[j].Off, recs[i].Off
			recs[i].Tmpl, recs[j].Tmpl = recs[j].Tmpl, recs[i].Tmpl
			recs[i].Var, recs[j].Var = recs[j].Var, recs[i].Var
			fired[pfReorder]++
		}
	}
	p.Recs = recs
	if r.Chance(1, 2) {
		for i := 0; i < len(recs)+4; i++ {
			var k KRecv
			if r.Chance(1, 4) {
				k.N = core.Pick(r, 1, 2, 5, 9)
				k.Kinds = uint16(r.Intn(1 << 9))
			}
			p.Recv = append(p.Recv, k)
		}
	}
	for i := r.Range(0, 100); i > 0; i-- {
		p.Tape = append(p.Tape, uint16(r.Intn(1<<16)))
	}
	p.Strategy = r.Intn(2)
	p.Fired = fired
	return p
}

const (
	evPPush  = iota + 1 // A=record index B=err
	evPGroup            // A=callback no B=len C=during(0 receiver 1 ticker 2 close)
	evPMsg              // A=callback no B=record id C=seq D=content ok
	evPLost             // A=count
	evPCoal             // A=callback no B=0 ok 1 err 2 panic 3 mismatch
	evPClose            // A=err
	evPRecvErr
	evPPoll
)

var pipeHist = core.NewHist(8192)

type pStream struct {
	h     *core.Hist
	sc    *core.Sched
	plan  *PPlan
	lines []string
	n     *int
}

//go:norace
func bump(n *int) int { v := *n; *n = v + 1; return v }

func (s *pStream) ReassemblyComplete(msgs []*auparse.AuditMessage) {
	cb := bump(s.n)
	who := int64(0)
	if t := s.sc.Me(); t != nil {
		who = int64(t.ID)
	}
	s.h.Rec(evPGroup, int64(cb), int64(len(msgs)), who, 0, "")
	for _, m := range msgs {
		id := -1
		ok := int64(0)
		var seq int64 = -1
		if m != nil {
			id = parseID(m.RawData)
			seq = int64(m.Sequence)
			if id >= 0 && id < len(s.lines) && m.RawData == s.lines[id] {
				ok = 1
			}
		}
		s.h.Rec(evPMsg, int64(cb), int64(id), seq, ok, "")
	}
	if s.plan.Coalesce && len(msgs) > 0 {
		res := int64(0)
		func() {
			defer func() {
				if r := recover(); r != nil {
					res = 2
				}
			}()
			ev, err := aucoalesce.CoalesceMessages(msgs)
			if err != nil {
				res = 1
			} else if ev.Sequence != msgs[0].Sequence || ev.Type != msgs[0].RecordType {
				res = 3
			}
		}()
		s.h.Rec(evPCoal, int64(cb), res, 0, 0, "")
	}
	if t := s.sc.Me(); t != nil {
		t.Yield("cb")
	}
}

func (s *pStream) EventsLost(count int) {
	s.h.Rec(evPLost, int64(count), 0, 0, 0, "")
}

type pShared struct{ receiverDone bool }

//go:norace
func (s *pShared) setDone() { s.receiverDone = true }

//go:norace
func (s *pShared) done() bool { return s.receiverDone }

const sysPending = 10

// ExecPPlan runs the pipeline. prop labels the violations (the engine is run
// in the thorough tier of C01 and C11).
func ExecPPlan(prop string) func(p *PPlan, trace bool) *core.Result {
	return func(p *PPlan, trace bool) *core.Result {
		res := &core.Result{Probes: make([]int, nPProbes), Faults: make([]int, nPFaults)}
		if len(p.Fired) == nPFaults {
			copy(res.Faults, p.Fired)
		}
		h := pipeHist
		h.Reset()
		sc := core.NewSched(h, p.Tape, 20000)
		sc.Strategy = p.Strategy
		sc.StickyMod = 4
		start := sc.Start
		now := func() int64 { return int64(time.Since(start)) }
		k := kern.New(44, now)
		port := &kernelPort{k: k, script: p.Recv}
		lines := make([]string, len(p.Recs))
		for i, rc := range p.Recs {
			q := QRec{Tmpl: rc.Tmpl, Var: rc.Var}
			typ, line := q.line(p.Base + rc.Off)
			line += " id=" + strconv.Itoa(i)
			lines[i] = strings.TrimSpace(line)
			b := make([]byte, 16+len(line))
			putU32(b[0:], uint32(len(b)))
			putU16(b[4:], uint16(typ))
			copy(b[16:], line)
			d := k.Inject(b, 0, false)
			d.AvailAt = rc.At
		}
		gb := &gateBox{g: &schedGate{sc: sc}}
		var nl libaudit.NetlinkSendReceiver
		if HooksEnabled {
			nl = newRealNetlink(&simSocket{gb: gb}, 4711, make([]byte, 16+8970), nil)
		} else {
			nl = newStubNetlink(gb, 4711)
		}
		client := &libaudit.AuditClient{Netlink: nl}
		ncb := 0
		st := &pStream{h: h, sc: sc, plan: p, lines: lines, n: &ncb}
		ra, err := libaudit.NewReassembler(p.Max, time.Duration(p.Timeout), st)
		if err != nil {
			res.Add(prop, "constructor-failed", "new", err.Error())
			return res
		}
		sh := &pShared{}
		sc.SysHandler = func(task int, req core.SysReq) core.SysResp {
			if req.Op == sysPending {
				// number of undelivered datagrams and when the next one is due
				next := int64(-1)
				for _, d := range k.Queue {
					if !d.Consumed {
						next = d.AvailAt
						break
					}
				}
				return core.SysResp{N: int64(k.Pending()), A: next}
			}
			return port.sysHandler(task, req)
		}
		sc.Go("receiver", func(t *core.Task) {
			defer sh.setDone()
			for guard := 0; guard < 5000; guard++ {
				raw, err := client.Receive(true)
				if err != nil {
					if err == syscall.EINTR {
						continue
					}
					if err == syscall.EAGAIN {
						st := t.Sys(core.SysReq{Op: sysPending})
						if st.N == 0 {
							return
						}
						h.Rec(evPPoll, 0, 0, 0, 0, "")
						// keep the polling grid but skip polls that are known to find nothing
						d := p.PollNs
						if wait := st.A - now(); wait > d {
							d = (wait + p.PollNs - 1) / p.PollNs * p.PollNs
						}
						t.Sleep(time.Duration(d))
						continue
					}
					h.Rec(evPRecvErr, 0, 0, 0, 0, err.Error())
					continue
				}
				id := parseID(string(raw.Data))
				h.Rec(evPPush, int64(id), 0, 0, 0, "")
				if perr := ra.Push(raw.Type, raw.Data); perr != nil {
					h.Rec(evPPush, int64(id), 1, 0, 0, "")
				}
			}
		})
		if p.Ticker {
			sc.Go("ticker", func(t *core.Task) {
				for i := 0; i < 400 && !sh.done(); i++ {
					t.Sleep(500 * time.Millisecond)
					if ra.Maintain() != nil {
						return
					}
				}
			})
		}
		sc.Go("closer", func(t *core.Task) {
			d := p.PollNs
			for i := 0; i < 200 && !sh.done(); i++ {
				t.Sleep(time.Duration(d))
				if d < 1800e9 {
					d *= 2
				}
			}
			err := ra.Close()
			e := int64(0)
			if err != nil {
				e = 1
			}
			h.Rec(evPClose, e, 0, 0, 0, "")
		})
		setInnerYields(p.Inner)
		setAuto(p.Auto, p.AutoSalt)
		setActiveSched(sc)
		verdict := sc.Run()
		setActiveSched(nil)
		setInnerYields(false)
		setAuto(0, 0)
		res.Verdict = verdict
		res.SchedHash = sc.SchedHash
		res.Steps = sc.Steps
		res.SimNs = now()
		res.Faults[pfEintr] += port.injEintr
		res.Faults[pfEagain] += port.injEagain
		evs := h.Events()
		res.TraceHash = h.Hash64()
		if trace {
			for _, e := range evs {
				res.Trace = append(res.Trace, fmt.Sprintf("step %d task %d: kind=%d a=%d b=%d c=%d d=%d %s", e.Step, e.Task, e.K, e.A, e.B, e.C, e.D, e.S))
			}
			for i, l := range lines {
				res.Trace = append(res.Trace, fmt.Sprintf("record %d at %s: type=%d %s", i, time.Duration(p.Recs[i].At), qTemplates[p.Recs[i].Tmpl].typ, l))
			}
		}
		switch verdict {
		case core.VerdictDeadlock:
			core.AbandonDeadlock(core.Violation{Property: prop, Kind: "deadlock", Class: "pipeline", Detail: "every unfinished task is blocked on a lock: " + sc.Describe()}, res.Trace)
		case core.VerdictStuck:
			core.AbandonInternal("simulator stuck: " + sc.Describe())
		case core.VerdictStepCap:
			core.AbandonDeadlock(core.Violation{Property: prop, Kind: "no-termination", Class: "pipeline", Detail: "step cap reached: " + sc.Describe()}, res.Trace)
		}
		for _, t := range sc.Tasks {
			if t.Panic != "" {
				res.Add(prop, "panic", "pipeline", "task "+t.Name+" panicked: "+t.Panic)
			}
		}
		// ---- oracle ----
		viol := func(kind, class, f string, a ...any) {
			for _, v := range res.Violations {
				if v.Kind == kind && v.Class == class {
					return
				}
			}
			res.Add(prop, kind, class, fmt.Sprintf(f, a...))
		}
		pushed := make([]bool, len(p.Recs))
		pushAt := make([]int, len(p.Recs))
		delivered := make([]int, len(p.Recs))
		groupSeq := map[int64]int64{}
		closed := false
		lostTotal := 0
		var order []uint32
		lastID := map[int64]int64{}
		for i, e := range evs {
			switch e.K {
			case evPPush:
				if e.A >= 0 && int(e.A) < len(pushed) && e.B == 0 {
					pushed[e.A] = true
					pushAt[e.A] = i
				} else if e.B != 0 && e.A >= 0 && int(e.A) < len(pushed) {
					pushed[e.A] = false
					viol("push-rejected", "pipeline", "Push rejected record %d (%q)", e.A, lines[e.A])
				}
			case evPGroup:
				res.Probes[ppDelivered]++
				if p.Ticker && e.C == 1 {
					res.Probes[ppByTicker]++
				}
				if int(e.C) == len(sc.Tasks)-1 {
					res.Probes[ppByClose]++
				}
			case evPMsg:
				id := e.B
				if id < 0 || int(id) >= len(pushed) || !pushed[id] {
					viol("unknown-message", "pipeline", "callback #%d delivered a message that was not pushed (id %d)", e.A, id)
					continue
				}
				delivered[id]++
				if delivered[id] > 1 {
					viol("duplicate-delivery", "pipeline", "record %d delivered %d times", id, delivered[id])
				}
				if e.D != 1 {
					viol("content-changed", "pipeline", "record %d was delivered with different text than the kernel sent (%q)", id, lines[id])
				}
				if s, ok := groupSeq[e.A]; ok && s != e.C {
					viol("mixed-sequence-group", "pipeline", "callback #%d mixes sequences %d and %d", e.A, s, e.C)
				} else if !ok {
					order = append(order, uint32(e.C)-p.Base)
				}
				groupSeq[e.A] = e.C
				if uint32(e.C) != p.Base+p.Recs[id].Off {
					viol("sequence-changed", "pipeline", "record %d delivered with sequence %d", id, e.C)
				}
				if l, ok := lastID[e.A]; ok && l >= id {
					viol("push-order-broken", "pipeline", "callback #%d delivers records out of push order", e.A)
				}
				lastID[e.A] = id
			case evPLost:
				lostTotal += int(e.A)
				res.Probes[ppLost]++
				if e.A <= 0 {
					viol("nonpositive-count", "pipeline", "EventsLost(%d)", e.A)
				}
			case evPCoal:
				switch e.B {
				case 0:
					res.Probes[ppCoalesced]++
				case 1:
					res.Probes[ppCoalesceErr]++
				case 2:
					viol("coalesce-panic", "pipeline", "CoalesceMessages panicked on a delivered group (callback #%d)", e.A)
				case 3:
					viol("coalesce-identity", "pipeline", "coalesced event of callback #%d does not carry the first record's sequence/type", e.A)
				}
			case evPClose:
				closed = true
				if e.A != 0 {
					viol("close-failed", "pipeline", "Close returned an error")
				}
			case evPPoll:
				res.Probes[ppPolled]++
			case evPRecvErr:
				viol("receive-error", "pipeline", "Receive failed on a kernel datagram: %s", e.S)
			}
		}
		if closed {
			for id := range pushed {
				if pushed[id] && qTemplates[p.Recs[id].Tmpl].typ != tEOE && delivered[id] != 1 {
					viol("message-not-delivered", "pipeline", "record %d (%q) was pushed before Close but delivered %d times", id, lines[id], delivered[id])
				}
			}
			// loss accounting over the whole run: only decidable when a single
			// goroutine drives the Reassembler at a time (no ticker task).
			if !p.Ticker {
				res.Probes[ppLostJudged]++
				expect := 0
				have := false
				var last uint32
				for _, o := range order {
					if o > spanMax {
						continue
					}
					if !have {
						have, last = true, o
					} else if o > last {
						expect += int(o - last - 1)
						last = o
					}
				}
				if lostTotal != expect {
					viol("lost-total-mismatch", "pipeline", "EventsLost total %d, the delivered in-order events skipped %d sequence numbers (delivery order offsets %v)", lostTotal, expect, order)
				}
			}
		}
		res.Ops = len(p.Recs)
		res.Nontrivial = len(p.Recs) >= 3 && res.Probes[ppDelivered] >= 2
		return res
	}
}
