package engines

import (
	"encoding/json"
	"fmt"
	"os/user"
	"sort"
	"strconv"
	"strings"
	"time"

	"github.com/elastic/go-libaudit/v2/aucoalesce"
	"github.com/elastic/go-libaudit/v2/auparse"

	"verifsim/core"
)

// QRec is one record of a message group: a template with a variant number
// that picks the field values, or arbitrary text.
type QRec struct {
	Typ  uint16 `json:"typ"`
	Tmpl int    `json:"tmpl"`
	Var  uint32 `json:"var"`
}

// coalesce operation kinds
const (
	qCoalesce = iota
	qResolveFresh
	qResolveGlobal
	qResolveShared
	qAdvance
	qTouchData
	qBurst // a burst of G events with ids nobody has seen, resolved against the process-wide caches
	nQOps
)

var qopNames = []string{"CoalesceMessages", "ResolveIDsFromCaches(fresh)", "ResolveIDs(global caches)", "ResolveIDsFromCaches(task caches)", "advance-clock", "Data/Tags/ToMapStr", "burst-of-unseen-ids"}

// QOp is one operation of a task on its own groups / events.
type QOp struct {
	K int   `json:"k"`
	G int   `json:"g"`           // group (index into the task's own groups) or event slot
	D int64 `json:"d,omitempty"` // clock advance
}

// QPlan is a plan of the coalesce engine (E4).
type QPlan struct {
	Groups   [][]QRec `json:"groups"`
	Tasks    [][]QOp  `json:"tasks"`
	Tape     []uint16 `json:"tape,omitempty"`
	Strategy int      `json:"strategy,omitempty"`
	Seq      uint32   `json:"seq"`
	Inner    bool     `json:"inner_yields,omitempty"` // pre-empt inside the ID caches' critical sections
	// Iso: "isolation twins". Nothing runs in this process: two fresh child
	// processes handle the groups one after the other, the first in the order
	// given and the second in reverse order, and what they return for each
	// group is compared. IsoOrder is the order a child works in.
	// Hard: user 12345 and group 12345 are given names with HardcodeUsers /
	// HardcodeGroups before the tasks start (the package-level caches only).
	Hard     bool  `json:"hardcode,omitempty"`
	Iso      bool  `json:"iso,omitempty"`
	IsoOrder []int `json:"iso_order,omitempty" shrink:"-"`
}

func (p *QPlan) Valid() bool {
	if len(p.Groups) > 40 || len(p.Tasks) > 4 || len(p.Tasks) == 0 {
		return false
	}
	if p.Iso && p.Hard {
		return false
	}
	if p.Iso && (len(p.Tasks) != 1 || len(p.Tasks[0]) != 0 || len(p.Tape) != 0 || len(p.Groups) < 2 || len(p.Groups) > 8 || p.Inner || p.Strategy != 0) {
		return false
	}
	for _, g := range p.Groups {
		if len(g) > 12 {
			return false
		}
		for _, r := range g {
			if r.Tmpl < 0 || r.Tmpl >= len(qTemplates) {
				return false
			}
		}
	}
	for _, t := range p.Tasks {
		if len(t) > 40 {
			return false
		}
		for _, o := range t {
			if o.K < 0 || o.K >= nQOps || o.G < 0 || (o.G > 64 && o.K != qBurst) || o.G > 70000 || o.D < 0 || o.D > 3600e9 {
				return false
			}
		}
	}
	return true
}

type qTemplate struct {
	typ  uint16
	body func(v uint32) string
}

var qUIDs = []string{"0", "1", "2", "33", "1000", "65534", "4294967295", "12345", "-1", "998"}
var qComms = []string{"bash", "sshd", "python3", "curl", "ls", "sh"}
var qExes = []string{"/usr/bin/bash", "/usr/sbin/sshd", "/usr/bin/python3.9", "/usr/bin/curl", "/bin/ls", "/usr/bin/sh"}
var qSyscalls = []int{2, 59, 42, 43, 49, 87, 82, 257, 44, 45, 288, 0, 1, 999, 90, 92, 105}
var qPaths = []string{`"/etc/passwd"`, `"/tmp/x"`, `2F746D702F612062`, `"/"`, `"/home/u/.ssh/authorized_keys"`, `(null)`,
	`"x"`, `"./a"`, `"../b/c"`, `"dir/file"`, `6120622F63`, `""`, `"."`}

// SELinux contexts with three to eight colon-separated parts (MLS ranges with categories add parts), and things that are not contexts
var qContexts = []string{"unconfined_u:unconfined_r:unconfined_t:s0-s0:c0.c1023", "system_u:object_r:etc_t:s0", "system_u:system_r:init_t", "u:r:t:s0:c0-s15:c0.c1023",
	"u:r:t:s0:c0.c5,c7-s15:c0.c1023:x:y", "=unconfined", "?", "a:b", "::::::", "kernel", "u:r:t:s0-s0:c0.c1023"}
var qModes = []string{"0100644", "040755", "020620", "060660", "010644", "0120777", "0140755", "0104755", "bad", "0"}

func pick(v uint32, shift uint, xs []string) string { return xs[int(v>>shift)%len(xs)] }

var qTemplates = []qTemplate{
	// 0 SYSCALL
	{tSYSCALL, func(v uint32) string {
		succ := "yes"
		exit := "0"
		if v&1 == 1 {
			succ = "no"
			exit = "-13"
		}
		if v&(1<<27) != 0 && v&(1<<26) != 0 {
			// return values at and beyond the edges of the errno table and of the integer types
			exit = []string{"-1", "-133", "-134", "-4095", "-4096", "-2147483648", "2147483648", "-9223372036854775808", "9223372036854775807", "-9223372036854775809", "18446744073709551615", "-0", "0x10", ""}[int(v>>8)%14]
		}
		key := `(null)`
		if v&2 == 2 {
			key = `"k` + strconv.Itoa(int(v>>20)%3) + `"`
		}
		if v&4 == 4 && v&2 == 2 {
			// several keys separated by 0x01, some of them repeated
			key = []string{`6B31016B32`, `6B31016B31016B32`, `6E6574016E65740165786563`, `6B32016B31016B32`}[int(v>>28)%4]
		}
		sysno := qSyscalls[int(v>>3)%len(qSyscalls)]
		if v&(1<<30) != 0 {
			sysno = int(v>>3) % 335 // any x86_64 syscall number
		}
		return fmt.Sprintf(`arch=c000003e syscall=%d success=%s exit=%s a0=7ffd5c a1=0 a2=1b6 a3=24 items=%d ppid=%d pid=%d auid=%s uid=%s gid=%s euid=%s suid=%s fsuid=%s egid=%s sgid=%s fsgid=%s tty=pts0 ses=%d comm="%s" exe="%s" subj=%s key=%s`,
			sysno, succ, exit, int(v>>8)%4, 1+int(v>>9)%50, 100+int(v>>10)%900,
			pick(v, 11, qUIDs), pick(v, 13, qUIDs), pick(v, 15, qUIDs), pick(v, 17, qUIDs), pick(v, 13, qUIDs), pick(v, 13, qUIDs), pick(v, 15, qUIDs), pick(v, 15, qUIDs), pick(v, 15, qUIDs),
			1+int(v>>19)%9, pick(v, 21, qComms), pick(v, 21, qExes), qContexts[int(v>>24)%16%len(qContexts)*int(v>>31)], key)
	}},
	// 1 CWD
	{tCWD, func(v uint32) string { return "cwd=" + pick(v, 0, qPaths) }},
	// 2 PATH
	{tPATH, func(v uint32) string {
		nt := []string{"NORMAL", "PARENT", "CREATE", "DELETE", "UNKNOWN"}[int(v>>4)%5]
		return fmt.Sprintf(`item=%d name=%s inode=%d dev=fd:00 mode=%s ouid=%s ogid=%s rdev=00:00 obj=%s nametype=%s`,
			int(v)%3, pick(v, 7, qPaths), 1000+int(v>>9)%5000, pick(v, 12, qModes), pick(v, 16, qUIDs), pick(v, 19, qUIDs), qContexts[(1+int(v>>22)%16%(len(qContexts)-1))*int(v>>31)], nt)
	}},
	// 3 EXECVE
	{tEXECVE, func(v uint32) string {
		argc := int(v) % 5
		s := "argc=" + strconv.Itoa(argc)
		if v&(1<<10) != 0 {
			s = "argc=x" + strconv.Itoa(argc)
		}
		n := argc
		if v&(1<<11) != 0 && n > 0 {
			n-- // an argument is missing
		}
		for i := 0; i < n; i++ {
			s += fmt.Sprintf(` a%d=%s`, i, []string{`"ls"`, `"-l"`, `2F746D702F782079`, `"--color=auto"`, `"x"`}[(int(v>>12)+i)%5])
		}
		if v&(1<<22) != 0 && v&(1<<23) != 0 {
			// one argument more than argc announces (index argc, or further out)
			s += fmt.Sprintf(` a%d="extra"`, argc+int(v>>24)%2*3)
		}
		return s
	}},
	// 4 SOCKADDR
	{tSOCKADDR, func(v uint32) string {
		if v&(1<<9) != 0 {
			// any address family with a body of any length (0..40 bytes of arbitrary hex), possibly cut in the middle of a byte
			fam := []string{"0100", "0200", "0A00", "1000", "1100", "0000", "2800", "FFFF"}[int(v>>10)%8]
			n := int(v>>13) % 41
			x := uint64(v) | 1
			b := make([]byte, 0, 2*n+1)
			for i := 0; i < 2*n; i++ {
				x = core.SplitMix64(x)
				b = append(b, "0123456789ABCDEF0000"[x%20])
			}
			if v&(1<<20) != 0 && len(b) > 0 {
				b = b[:len(b)-1]
			}
			return "saddr=" + fam + string(b)
		}
		return "saddr=" + []string{"02000050A9FEA9FE0000000000000000", "01002F72756E2F6E7363642F736F636B657400", "0A000016000000002001048860480000000000000000888800000000",
			"100000000000000000000000", "zz", "0200", "0100", "010000", "01", "", "0100006162630000", "0A00", "0A0000160000", "1000", "01002F746D702F78"}[int(v)%15]
	}},
	// 5 PROCTITLE
	{tPROCTITLE, func(v uint32) string {
		return "proctitle=" + []string{"6C73002D6C", `"bash"`, "2F7573722F62696E2F707974686F6E33002D63007072696E74", "(null)"}[int(v)%4]
	}},
	// 6 AVC (SELinux)
	{tAVC, func(v uint32) string {
		return fmt.Sprintf(`avc:  denied  { read write } for  pid=%d comm="%s" name="index.html" dev="dm-0" ino=%d scontext=system_u:system_r:httpd_t:s0 tcontext=unconfined_u:object_r:user_home_t:s0 tclass=file permissive=0`,
			100+int(v)%900, pick(v, 5, qComms), int(v>>8)%9999)
	}},
	// 7 USER_LOGIN
	{1112, func(v uint32) string {
		res := "success"
		if v&1 == 1 {
			res = "failed"
		}
		return fmt.Sprintf(`pid=%d uid=%s auid=%s ses=%d subj=system_u:system_r:sshd_t:s0-s0:c0.c1023 msg='op=login id=%s exe="/usr/sbin/sshd" hostname=host%d addr=10.0.%d.%d terminal=ssh res=%s'`,
			100+int(v>>1)%900, pick(v, 4, qUIDs), pick(v, 7, qUIDs), 1+int(v>>10)%9, pick(v, 7, qUIDs), int(v>>12)%4, int(v>>14)%255, int(v>>20)%255, res)
	}},
	// 8 USER_AUTH
	{tUSERAUTH, func(v uint32) string {
		return fmt.Sprintf(`pid=%d uid=%s auid=%s ses=%d msg='op=PAM:authentication acct="%s" exe="/usr/sbin/sshd" hostname=10.0.0.%d addr=10.0.0.%d terminal=ssh res=%s'`,
			100+int(v)%900, pick(v, 4, qUIDs), pick(v, 7, qUIDs), 1+int(v>>10)%9, []string{"root", "daemon", "nobody", "ghost", "(unknown)"}[int(v>>13)%5], int(v>>16)%255, int(v>>16)%255, []string{"success", "failed"}[int(v>>24)%2])
	}},
	// 9 LOGIN
	{tLOGIN, func(v uint32) string {
		return fmt.Sprintf(`pid=%d uid=%s subj=system_u:system_r:sshd_t:s0 old auid=4294967295 new auid=%s old ses=4294967295 new ses=%d res=%d`,
			100+int(v)%900, pick(v, 4, qUIDs), pick(v, 7, qUIDs), 1+int(v>>10)%9, int(v>>14)%2)
	}},
	// 10 CONFIG_CHANGE
	{1305, func(v uint32) string {
		return fmt.Sprintf(`auid=%s ses=%d op="add rule" key="k%d" list=4 res=%d`, pick(v, 0, qUIDs), 1+int(v>>4)%9, int(v>>8)%3, int(v>>10)%2)
	}},
	// 11 USER_CMD
	{1123, func(v uint32) string {
		return fmt.Sprintf(`pid=%d uid=%s auid=%s ses=%d msg='cwd="/home/u" cmd=%s terminal=pts/0 res=%s'`, 100+int(v)%900, pick(v, 4, qUIDs), pick(v, 7, qUIDs),
			1+int(v>>10)%9, []string{"6C73202D6C", `"id"`, "zz"}[int(v>>13)%3], []string{"success", "failed"}[int(v>>16)%2])
	}},
	// 12 ANOM_PROMISCUOUS
	{1700, func(v uint32) string {
		return fmt.Sprintf(`dev=eth%d prom=256 old_prom=0 auid=%s uid=%s gid=%s ses=%d`, int(v)%3, pick(v, 2, qUIDs), pick(v, 5, qUIDs), pick(v, 8, qUIDs), 1+int(v>>11)%9)
	}},
	// 13 CRED_ACQ
	{1103, func(v uint32) string {
		return fmt.Sprintf(`pid=%d uid=%s auid=%s ses=%d msg='op=PAM:setcred acct="root" exe="/usr/sbin/sshd" hostname=h addr=192.168.%d.%d terminal=ssh res=success'`, 100+int(v)%900, pick(v, 4, qUIDs), pick(v, 7, qUIDs), 1+int(v>>10)%9, int(v>>13)%255, int(v>>21)%255)
	}},
	// 14 arbitrary text
	{tSYSCALL, func(v uint32) string {
		x := uint64(v) | 1
		n := int(v) % 60
		b := make([]byte, n)
		for i := range b {
			x = core.SplitMix64(x)
			b[i] = " =\"'abcxyz019_-:,{}()\\\t?"[x%24]
		}
		return string(b)
	}},
	// 15 a record that repeats keys of the SYSCALL record (collisions)
	{1334, func(v uint32) string {
		return fmt.Sprintf(`pid=%d comm="%s" exe="%s" syscall=2 result=weird ses=77 uid=%s extra=%d`, int(v)%999, pick(v, 3, qComms), pick(v, 3, qExes), pick(v, 6, qUIDs), int(v>>9)%7)
	}},
	// 16 EOE
	{tEOE, func(v uint32) string { return "" }},
	// 17 truncated SYSCALL (no result, no ses)
	{tSYSCALL, func(v uint32) string {
		return fmt.Sprintf(`arch=c000003e syscall=%d items=1 ppid=1 pid=%d auid=%s uid=%s comm="x" exe="/x"`, qSyscalls[int(v)%len(qSyscalls)], int(v>>5)%999, pick(v, 10, qUIDs), pick(v, 13, qUIDs))
	}},
	// 18 header only / no body
	{1300, func(v uint32) string { return "" }},
	// 19 USER_START with hostname quirk
	{1105, func(v uint32) string {
		return fmt.Sprintf(`pid=%d uid=%s auid=%s ses=%d msg='op=PAM:session_open acct="root" exe="/usr/sbin/sshd" (hostname=10.1.1.%d, addr=10.1.1.%d, terminal=ssh res=success)'`, int(v)%999, pick(v, 4, qUIDs), pick(v, 7, qUIDs), 1+int(v>>10)%9, int(v>>13)%255, int(v>>13)%255)
	}},
	// 20 AVC (AppArmor): the same record type as template 6 with another set of fields
	{tAVC, func(v uint32) string {
		return fmt.Sprintf(`apparmor="%s" operation="%s" profile="docker-default" pid=%d comm="%s" requested_mask="trace" denied_mask="trace" peer="docker-default"`,
			[]string{"DENIED", "ALLOWED", "STATUS"}[int(v)%3], []string{"ptrace", "open", "exec"}[int(v>>2)%3], 100+int(v>>4)%900, pick(v, 14, qComms))
	}},
	// 21 a record with more than one outcome field (success= of the kernel's records and res= of
	// user-space records, merged or mimicked text), agreeing or not, in either order
	{tSYSCALL, func(v uint32) string {
		succ := []string{"yes", "no"}[int(v)&1]
		res := []string{"success", "failed", "1", "0"}[int(v>>1)&3]
		a, b := "success="+succ, "res="+res
		if v&8 != 0 {
			a, b = b, a
		}
		return fmt.Sprintf(`arch=c000003e syscall=%d %s exit=0 items=0 ppid=1 pid=%d auid=%s uid=%s gid=%s ses=%d comm="x" exe="/x" %s`,
			qSyscalls[int(v>>4)%len(qSyscalls)], a, 100+int(v>>9)%900, pick(v, 12, qUIDs), pick(v, 15, qUIDs), pick(v, 18, qUIDs), 1+int(v>>21)%9, b)
	}},
}

func (r QRec) line(seq uint32) (auparse.AuditMessageType, string) {
	t := qTemplates[r.Tmpl]
	typ := t.typ
	if r.Typ != 0 {
		typ = r.Typ
	}
	body := t.body(r.Var)
	return auparse.AuditMessageType(typ), fmt.Sprintf("audit(1490137971.%03d:%d): %s", int(r.Var)%1000, seq, body)
}

// GenQPlanFirst draws the plan for the first run of a worker process: two or
// three tasks that all begin by coalescing their own groups (SYSCALL, AVC and
// user-space records), so that the library's first-use paths run concurrently.
func GenQPlanFirst(r *core.Rng) *QPlan {
	p := GenQPlan(r)
	p.Hard, p.Iso = false, false
	nt := r.Range(2, 3)
	p.Groups = nil
	for g := 0; g < 2*nt; g++ {
		var recs []QRec
		switch r.Intn(3) {
		case 0:
			recs = []QRec{{Tmpl: 0, Var: r.U32()}, {Tmpl: 2, Var: r.U32()}, {Tmpl: 5, Var: r.U32()}}
		case 1:
			recs = []QRec{{Tmpl: core.Pick(r, 6, 20), Var: r.U32()}, {Tmpl: 0, Var: r.U32()}}
		default:
			recs = []QRec{{Tmpl: core.Pick(r, 7, 8, 11, 13), Var: r.U32()}}
		}
		p.Groups = append(p.Groups, recs)
	}
	p.Tasks = nil
	for t := 0; t < nt; t++ {
		ops := []QOp{{K: qCoalesce, G: 0}, {K: qCoalesce, G: 1}}
		if r.Chance(1, 2) {
			ops = append(ops, QOp{K: qResolveGlobal, G: 0})
		}
		p.Tasks = append(p.Tasks, ops)
	}
	p.Inner = r.Chance(1, 2)
	return p
}

// GenQPlan draws a pool of message groups and per-task programs over them.
func GenQPlan(r *core.Rng) *QPlan {
	p := &QPlan{Seq: core.Pick(r, uint32(1), 0, 1<<32-1, r.U32())}
	ng := r.Range(1, core.Scale(8, false))
	iso := r.Chance(1, 500)
	if iso {
		ng = r.Range(2, 6)
	}
	// per-run pool of record types for "special first record + SYSCALL" groups:
	// re-using a type within one run makes events share normalisation entries.
	var specials []uint16
	for k := r.Range(1, 3); k > 0; k-- {
		specials = append(specials, uint16(core.Pick(r, r.Range(1100, 1140), r.Range(1300, 1340), r.Range(1400, 1420), r.Range(2100, 2115), r.Range(1700, 1702), r.Range(2300, 2310), r.Range(1000, 2999))))
	}
	sysVar := func() uint32 {
		// spread over syscall classes (open/unlink/connect/execve/setuid/...)
		return r.U32() | 1<<30
	}
	for g := 0; g < ng; g++ {
		var recs []QRec
		v := func() uint32 { return r.U32() }
		switch r.Weighted(40, 22, 8, 6, 6, 5, 16) {
		case 6: // a user-space / anomaly record of an arbitrary type followed by its SYSCALL
			recs = append(recs, QRec{Tmpl: core.Pick(r, 7, 8, 12, 13, 10), Typ: specials[r.Intn(len(specials))], Var: v()})
			recs = append(recs, QRec{Tmpl: 0, Var: sysVar()})
			if r.Chance(1, 3) {
				recs = append(recs, QRec{Tmpl: 2, Var: v()})
			}
			if r.Chance(1, 3) {
				recs = append(recs, QRec{Tmpl: 5, Var: v()})
			}
		case 0: // syscall group
			recs = append(recs, QRec{Tmpl: core.Pick(r, 0, 0, 0, 17, 21), Var: v()})
			if r.Chance(1, 2) {
				recs = append(recs, QRec{Tmpl: 1, Var: v()})
			}
			for k := r.Intn(4); k > 0; k-- {
				recs = append(recs, QRec{Tmpl: 2, Var: v()})
			}
			if r.Chance(1, 2) {
				recs = append(recs, QRec{Tmpl: 3, Var: v()})
			}
			if r.Chance(1, 2) {
				recs = append(recs, QRec{Tmpl: 4, Var: v()})
			}
			if r.Chance(1, 5) {
				recs = append(recs, QRec{Tmpl: core.Pick(r, 15, 6, 14, 20, 21), Var: v()})
			}
			if r.Chance(1, 2) {
				recs = append(recs, QRec{Tmpl: 5, Var: v()})
			}
			if r.Chance(1, 4) {
				recs = append(recs, QRec{Tmpl: 16})
			}
			if r.Chance(1, 8) { // shuffle a little
				i, j := r.Intn(len(recs)), r.Intn(len(recs))
				recs[i], recs[j] = recs[j], recs[i]
			}
		case 1: // single record
			recs = append(recs, QRec{Tmpl: core.Pick(r, 7, 8, 9, 10, 11, 12, 13, 19, 6, 20, 0, 5, 21), Var: v(), Typ: core.Pick[uint16](r, 0, 0, 1112, 1123, 1300)})
			if r.Chance(1, 4) {
				recs[0].Typ = specials[r.Intn(len(specials))]
			}
		case 2: // AVC + SYSCALL
			recs = append(recs, QRec{Tmpl: core.Pick(r, 6, 20), Var: v()}, QRec{Tmpl: 0, Var: v()})
			if r.Chance(1, 2) {
				recs = append(recs, QRec{Tmpl: 5, Var: v()})
			}
		case 3: // multi-record without SYSCALL
			recs = append(recs, QRec{Tmpl: 2, Var: v()}, QRec{Tmpl: 1, Var: v()})
		case 4: // garbage
			for k := r.Range(1, 3); k > 0; k-- {
				recs = append(recs, QRec{Tmpl: core.Pick(r, 14, 18, 14), Var: v(), Typ: core.Pick[uint16](r, 0, tSYSCALL, tPATH, tEXECVE, tSOCKADDR, tAVC, 1112, 1327, 1006)})
			}
		default: // empty
		}
		p.Groups = append(p.Groups, recs)
	}
	if iso {
		p.Iso = true
		p.Tasks = [][]QOp{{}}
		return p
	}
	nt := core.Pick(r, 1, 1, 2, 2, 3)
	for t := 0; t < nt; t++ {
		var ops []QOp
		n := r.Range(1, core.Scale(8, false))
		for i := 0; i < n; i++ {
			switch r.Weighted(50, 10, 10, 10, 8, 12) {
			case 0:
				ops = append(ops, QOp{K: qCoalesce, G: r.Intn(8)})
			case 1:
				ops = append(ops, QOp{K: qResolveFresh, G: r.Intn(8)})
			case 2:
				ops = append(ops, QOp{K: qResolveGlobal, G: r.Intn(8)})
			case 3:
				ops = append(ops, QOp{K: qResolveShared, G: r.Intn(8)})
			case 4:
				ops = append(ops, QOp{K: qAdvance, D: core.Pick[int64](r, 1, 59e9, 60e9, 60e9+1, 61e9, 3600e9)})
			default:
				ops = append(ops, QOp{K: qTouchData, G: r.Intn(8)})
			}
		}
		p.Tasks = append(p.Tasks, ops)
	}
	for i := r.Range(0, 60); i > 0; i-- {
		p.Tape = append(p.Tape, uint16(r.Intn(1<<16)))
	}
	p.Strategy = r.Intn(2)
	p.Inner = nt >= 2 && r.Chance(1, 2)
	if r.Chance(1, 8) {
		// names injected with HardcodeUsers / HardcodeGroups; a group whose uid is the injected one
		p.Hard = true
		p.Groups = append(p.Groups, []QRec{{Tmpl: 0, Var: 7<<13 | uint32(r.Intn(1<<11))}, {Tmpl: 3, Var: 4 | 2<<12}, {Tmpl: 4, Var: 1}}) // (with hex-encoded arguments and a unix socket path)
		gi := (len(p.Groups) - 1) / nt                                                                                                   // its index among the owner's groups
		t := (len(p.Groups) - 1) % nt
		ops := []QOp{{K: qCoalesce, G: gi}, {K: qResolveGlobal, G: 63}}
		if r.Chance(1, 10) {
			// many events with ids nobody has seen pass through the process-wide tables in between
			ops = append(ops, QOp{K: qBurst, G: core.Pick(r, 30, 60, 60, 250)})
		}
		if r.Chance(1, 25) {
			// a long series of calls in between: thousands of events resolved, or one compound group coalesced tens of thousands of times
			if r.Chance(1, 2) {
				ops = append(ops, QOp{K: qBurst, G: core.Pick(r, 600, 1100, 2100, 4200, 7000)})
			} else {
				ops = append(ops, QOp{K: qBurst, D: 1, G: core.Pick(r, 300, 1100, 4200, 9000, 17000, 33000, 66000, 70000)})
			}
		}
		ops = append(ops, QOp{K: qCoalesce, G: gi}, QOp{K: qResolveGlobal, G: 63}, QOp{K: qResolveGlobal, G: 62})
		p.Tasks[t] = append(p.Tasks[t], ops...)
		if len(p.Tasks[t]) > 40 {
			p.Tasks[t] = p.Tasks[t][len(p.Tasks[t])-40:]
		}
	}
	return p
}

const (
	qpRepeatCoalesce = iota
	qpResolveAfterExpiry
	qpCoalesceError
	qpWarnings
	qpExecveArgs
	qpPathsShared
	qpFirstDataInsideCoalesce
	qpResolvedNames
	qpConcurrentTasks
	qpSyscallNormAppend
	qpGarbage
	qpLockBlocked
	qpLazyFirstRun
	qpIsoTwins
	qpHardcoded
	qpBurst
	nQProbes
)

var qProbeNames = []string{"same_messages_coalesced_again", "resolution_after_clock_advance", "coalesce_returned_error", "event_with_warnings",
	"execve_args_extracted", "event_with_paths", "first_Data_call_inside_coalesce", "ids_resolved_to_names", "two_or_more_tasks", "ecs_category_merged_from_syscall_norm", "garbage_group", "task_blocked_on_cache_lock", "first_run_of_process_without_warm_up", "isolation_twins_two_fresh_processes_two_orders", "names_injected_with_HardcodeUsers", "burst_of_300_to_2500_unseen_ids_through_the_global_caches"}

var qFaultNames = []string{"cache_expiry_clock_jump", "repeated_call_on_same_input", "concurrent_tasks", "malformed_records"}

// independent reference for ID resolution: the sandbox's user and group
// databases asked directly (os/user), once per process.
var refUserName, refGroupName map[string]string

func initNameRefs() {
	if refUserName != nil {
		return
	}
	refUserName, refGroupName = map[string]string{}, map[string]string{}
	for _, id := range qUIDs {
		if u, err := user.LookupId(id); err == nil {
			refUserName[id] = u.Username
		} else {
			refUserName[id] = ""
		}
		if g, err := user.LookupGroupId(id); err == nil {
			refGroupName[id] = g.Name
		} else {
			refGroupName[id] = ""
		}
	}
}

// checkNames compares, after an event's ids were resolved, the name attached
// to every id with the answer of the user / group database for that id (hard:
// with the names injected into the process-wide caches for user / group 12345).
func checkNames(ev *aucoalesce.Event, hard bool) string {
	if ev == nil {
		return ""
	}
	for k, id := range ev.User.IDs {
		name := ev.User.Names[k]
		var want string
		var ok bool
		switch {
		case strings.HasSuffix(k, "uid"):
			want, ok = refUserName[id]
			if hard && id == hardID {
				want, ok = hardUser, true
			}
		case strings.HasSuffix(k, "gid"):
			want, ok = refGroupName[id]
			if hard && id == hardID {
				want, ok = hardGroup, true
			}
		}
		if ok && name != want {
			return fmt.Sprintf("user.names[%s] = %q for id %s, the %s database says %q", k, name, id, map[bool]string{true: "user", false: "group"}[strings.HasSuffix(k, "uid")], want)
		}
	}
	if ev.File != nil {
		want, ok := refUserName[ev.File.UID]
		if hard && ev.File.UID == hardID {
			want, ok = hardUser, true
		}
		if ok && ev.File.UID != "" && ev.File.Owner != want {
			return fmt.Sprintf("file.owner = %q for uid %s, the user database says %q", ev.File.Owner, ev.File.UID, want)
		}
		want, ok = refGroupName[ev.File.GID]
		if hard && ev.File.GID == hardID {
			want, ok = hardGroup, true
		}
		if ok && ev.File.GID != "" && ev.File.Group != want {
			return fmt.Sprintf("file.group = %q for gid %s, the group database says %q", ev.File.Group, ev.File.GID, want)
		}
	}
	return ""
}

const (
	hardID    = "12345"
	hardUser  = "hard-u"
	hardGroup = "hard-g"
)

// canonical forms -----------------------------------------------------------

func canonEvent(ev *aucoalesce.Event, err error) string {
	if ev == nil {
		return "nil-event err=" + fmt.Sprint(err)
	}
	b, jerr := json.Marshal(ev)
	if jerr != nil {
		return "json-error " + jerr.Error()
	}
	var w []string
	for _, e := range ev.Warnings {
		w = append(w, e.Error())
	}
	sort.Strings(w)
	return string(b) + " warnings=" + strings.Join(w, "|") + " err=" + fmt.Sprint(err)
}

func canonMsg(m *auparse.AuditMessage) (out string) {
	// a hand-rolled canonical form (sorted keys): this runs for every message
	// of every touched group after every operation
	defer func() {
		if r := recover(); r != nil {
			// the message's accessors panicked; CoalesceMessages on the same lines is judged by its own call
			out = "accessor-panic: " + fmt.Sprint(r)
		}
	}()
	var b strings.Builder
	d, derr := m.Data()
	tags, terr := m.Tags()
	ms := m.ToMapStr()
	b.WriteString("data{")
	keys := make([]string, 0, len(d)+len(ms))
	for k := range d {
		keys = append(keys, k)
	}
	sort.Strings(keys)
	for _, k := range keys {
		b.WriteString(k)
		b.WriteByte('=')
		b.WriteString(d[k])
		b.WriteByte(0x1f)
	}
	if d == nil {
		b.WriteString("nil")
	}
	fmt.Fprintf(&b, "} derr=%v tags=%q/%v terr=%v map{", derr, tags, tags == nil, terr)
	keys = keys[:0]
	for k := range ms {
		keys = append(keys, k)
	}
	sort.Strings(keys)
	for _, k := range keys {
		b.WriteString(k)
		b.WriteByte('=')
		switch v := ms[k].(type) {
		case string:
			b.WriteString(v)
		case []string:
			fmt.Fprintf(&b, "%q", v)
		default:
			fmt.Fprintf(&b, "%T:%v", v, v)
		}
		b.WriteByte(0x1f)
	}
	b.WriteByte('}')
	return b.String()
}

type qGroup struct {
	msgs    []*auparse.AuditMessage
	twin    []string // canonical form of each message's pristine twin
	refEv   string   // canonical event of the pristine group coalesced in isolation
	refRes  string   // the same, after ID resolution with fresh caches
	touched bool     // Data() was called on the messages before
}

//go:norace
func (g *qGroup) setTouched() { g.touched = true }

//go:norace
func (g *qGroup) isTouched() bool { return g.touched }

type qEvent struct {
	ev         *aucoalesce.Event
	err        error
	g          int
	snapshot   string
	resolved   bool
	globalSnap string // Hard runs: the event as resolved against the process-wide caches
}

const (
	evQViol = iota + 1
	evQOp
	evQGot // lazy mode: a result to be judged after the run (A group, B op, C 0 coalesce / 1 resolve, S canonical form)
)

var qHist = core.NewHist(4096)

// qFirstRun is true until the first plan of this process has been executed.
var qFirstRun = true

func parseGroup(recs []QRec, seq uint32) []*auparse.AuditMessage {
	var out []*auparse.AuditMessage
	for _, r := range recs {
		typ, line := r.line(seq)
		m, err := auparse.Parse(typ, line)
		if err != nil {
			continue
		}
		out = append(out, m)
	}
	return out
}

func safeCoalesce(msgs []*auparse.AuditMessage) (ev *aucoalesce.Event, err error, panicked string) {
	defer func() {
		if r := recover(); r != nil {
			panicked = fmt.Sprint(r)
		}
	}()
	ev, err = aucoalesce.CoalesceMessages(msgs)
	return
}

// isoChildEval is what an isolation-twin child computes: every group, in the
// order given, parsed, coalesced and resolved against the process-wide caches,
// in a process that has done nothing else before.
func isoChildEval(p *QPlan) []byte {
	out := make([]string, len(p.Groups))
	for _, gi := range p.IsoOrder {
		if gi < 0 || gi >= len(p.Groups) {
			continue
		}
		ev, err, pan := safeCoalesce(parseGroup(p.Groups[gi], p.Seq+uint32(gi)))
		if pan != "" {
			out[gi] = "panic: " + pan
			continue
		}
		s := canonEvent(ev, err)
		if ev != nil {
			func() {
				defer func() {
					if r := recover(); r != nil {
						s += "\nresolve-panic: " + fmt.Sprint(r)
					}
				}()
				aucoalesce.ResolveIDs(ev)
				s += "\nresolved: " + canonEvent(ev, err)
			}()
		}
		out[gi] = s
	}
	b, _ := json.Marshal(out)
	return b
}

// isoTwins executes an isolation-twin plan: two fresh processes, two orders,
// the same answer for every group.
func isoTwins(p *QPlan, trace bool) *core.Result {
	if !p.Iso {
		return nil
	}
	res := &core.Result{Probes: make([]int, nQProbes), Faults: make([]int, 4), Verdict: core.VerdictOK}
	n := len(p.Groups)
	run := func(rev bool) []string {
		c := *p
		c.IsoOrder = nil
		for i := 0; i < n; i++ {
			if rev {
				c.IsoOrder = append(c.IsoOrder, n-1-i)
			} else {
				c.IsoOrder = append(c.IsoOrder, i)
			}
		}
		b, err := core.SpawnEval(&c)
		var out []string
		if err != nil || json.Unmarshal(b, &out) != nil || len(out) != n {
			core.AbandonInternal(fmt.Sprintf("isolation twin child failed: %v", err))
		}
		return out
	}
	fwd, rev := run(false), run(true)
	h := uint64(14695981039346656037)
	for gi := 0; gi < n; gi++ {
		for _, c := range []byte(fwd[gi]) {
			h = (h ^ uint64(c)) * 1099511628211
		}
		if fwd[gi] != rev[gi] {
			res.Add("C15", "outcome-depends-on-history", "process", fmt.Sprintf("group %d handled in a fresh process after groups %v gives\n  %s\nhandled in a fresh process after groups %v it gives\n  %s",
				gi, seqInts(0, gi), fwd[gi], seqInts(n-1, gi), rev[gi]))
			break
		}
	}
	if trace {
		for gi, recs := range p.Groups {
			for _, r := range recs {
				typ, line := r.line(p.Seq + uint32(gi))
				res.Trace = append(res.Trace, fmt.Sprintf("group %d: type=%d %s", gi, typ, line))
			}
			res.Trace = append(res.Trace, fmt.Sprintf("group %d in order 0..%d: %s", gi, n-1, fwd[gi]), fmt.Sprintf("group %d in order %d..0: %s", gi, n-1, rev[gi]))
		}
	}
	res.Probes[qpIsoTwins]++
	res.TraceHash = h
	res.Ops = 2 * n
	res.Nontrivial = true
	return res
}

// seqInts lists the integers from a (inclusive) towards b (exclusive).
func seqInts(a, b int) []int {
	var out []int
	for a != b {
		out = append(out, a)
		if a < b {
			a++
		} else {
			a--
		}
	}
	return out
}

// ExecQPlan runs the coalesce-pool plan.
func ExecQPlan(p *QPlan, trace bool) *core.Result {
	res := &core.Result{Probes: make([]int, nQProbes), Faults: make([]int, 4)}
	h := qHist
	h.Reset()
	start := time.Now()
	// ---- setup, in the driver goroutine, before any task exists ----
	resetCoalesceGlobals()
	initNameRefs()
	if p.Hard {
		aucoalesce.HardcodeUsers(user.User{Uid: hardID, Username: hardUser})
		aucoalesce.HardcodeGroups(user.Group{Gid: hardID, Name: hardGroup})
		res.Probes[qpHardcoded]++
	}
	// In the first run of a process nothing of the library's parsing and
	// coalescing code is executed before the tasks exist, so that whatever the
	// library initialises on first use is initialised by concurrent tasks;
	// the reference answers are then computed after the run.
	lazy := qFirstRun
	qFirstRun = false
	groups := make([]*qGroup, len(p.Groups))
	computeRefs := func(gi int) bool {
		recs := p.Groups[gi]
		g := groups[gi]
		for _, tm := range parseGroup(recs, p.Seq+uint32(gi)) {
			g.twin = append(g.twin, canonMsg(tm))
		}
		ev, err, pan := safeCoalesce(parseGroup(recs, p.Seq+uint32(gi)))
		if pan != "" {
			res.Add("C15", "panic", "CoalesceMessages", "CoalesceMessages panicked on group "+strconv.Itoa(gi)+": "+pan)
			return false
		}
		g.refEv = canonEvent(ev, err)
		if ev != nil {
			func() {
				defer func() {
					if r := recover(); r != nil {
						res.Add("C15", "panic", "ResolveIDs", fmt.Sprint(r))
					}
				}()
				aucoalesce.ResolveIDsFromCaches(ev, aucoalesce.NewUserCache(time.Minute), aucoalesce.NewGroupCache(time.Minute))
			}()
			g.refRes = canonEvent(ev, err)
			if g.refRes != g.refEv {
				res.Probes[qpResolvedNames]++
			}
			if len(ev.Warnings) > 0 {
				res.Probes[qpWarnings]++
			}
			if len(ev.Process.Args) > 0 {
				res.Probes[qpExecveArgs]++
			}
			if len(ev.Paths) > 0 {
				res.Probes[qpPathsShared]++
			}
			if len(ev.ECS.Event.Category) > 1 {
				res.Probes[qpSyscallNormAppend]++
			}
		} else {
			res.Probes[qpCoalesceError]++
		}
		for _, r := range recs {
			if r.Tmpl == 14 || r.Tmpl == 18 {
				res.Probes[qpGarbage]++
				res.Faults[3]++
				break
			}
		}
		return true
	}
	for gi, recs := range p.Groups {
		groups[gi] = &qGroup{msgs: parseGroup(recs, p.Seq+uint32(gi))}
		if !lazy {
			if !computeRefs(gi) {
				return res
			}
		}
	}
	if len(res.Violations) > 0 {
		return res
	}
	nt := len(p.Tasks)
	if nt >= 2 {
		res.Probes[qpConcurrentTasks]++
		res.Faults[2]++
	}
	sc := core.NewSched(h, p.Tape, 3000)
	sc.Strategy = p.Strategy
	sc.StickyMod = 3
	for ti := range p.Tasks {
		ti := ti
		ops := p.Tasks[ti]
		// the task's own groups: g with g % nt == ti ("different events")
		var own []int
		for gi := range groups {
			if gi%nt == ti {
				own = append(own, gi)
			}
		}
		sc.Go("task"+strconv.Itoa(ti), func(t *core.Task) {
			var events []*qEvent
			users := aucoalesce.NewUserCache(time.Minute)
			grps := aucoalesce.NewGroupCache(time.Minute)
			advanced := false
			viol := func(kind, class, detail string) { h.Rec(evQViol, 0, 0, 0, 0, kind+"\x00"+class+"\x00"+detail) }
			checkAll := func(opi int) {
				if lazy {
					// earlier events against their snapshots only; the messages are compared with their twins after the run
					for ei, e := range events {
						if got := canonEvent(e.ev, e.err); got != e.snapshot {
							viol("earlier-event-changed", "event", fmt.Sprintf("after op %d of task %d the event returned earlier (slot %d, group %d) changed:\n  now  %s\n  was  %s", opi, ti, ei, e.g, got, e.snapshot))
							return
						}
					}
					return
				}
				for _, gi := range own {
					g := groups[gi]
					if !g.isTouched() {
						continue // the oracle never makes the first Data() call itself
					}
					for mi, m := range g.msgs {
						if got := canonMsg(m); got != g.twin[mi] {
							viol("input-changed", "message", fmt.Sprintf("after op %d of task %d message %d of group %d reports\n  %s\na pristine parse of the same line reports\n  %s", opi, ti, mi, gi, got, g.twin[mi]))
							return
						}
					}
				}
				for ei, e := range events {
					if got := canonEvent(e.ev, e.err); got != e.snapshot {
						viol("earlier-event-changed", "event", fmt.Sprintf("after op %d of task %d the event returned earlier (slot %d, group %d) changed:\n  now  %s\n  was  %s", opi, ti, ei, e.g, got, e.snapshot))
						return
					}
				}
			}
			for oi, op := range ops {
				t.Yield("op")
				t.Local = 0
				h.Rec(evQOp, int64(oi), int64(op.K), int64(op.G), int64(time.Since(start)), "")
				switch op.K {
				case qCoalesce:
					if len(own) == 0 {
						continue
					}
					gi := own[op.G%len(own)]
					g := groups[gi]
					ev, err, pan := safeCoalesce(g.msgs)
					if pan != "" {
						viol("panic", "CoalesceMessages", "CoalesceMessages panicked: "+pan)
						continue
					}
					if !g.isTouched() {
						h.Rec(evQOp, int64(oi), -1, int64(gi), 0, "")
					}
					got := canonEvent(ev, err)
					if lazy {
						// judged after the run, when the reference exists
						h.Rec(evQGot, int64(gi), int64(oi), 0, 0, got)
					} else if got != g.refEv {
						viol("coalesce-not-repeatable", "event", fmt.Sprintf("CoalesceMessages on group %d (call by task %d op %d, messages coalesced before: %v) returned\n  %s\nthe same lines coalesced in isolation give\n  %s", gi, ti, oi, g.isTouched(), got, g.refEv))
					}
					g.setTouched()
					if ev != nil {
						events = append(events, &qEvent{ev: ev, err: err, g: gi, snapshot: got})
					}
				case qResolveFresh, qResolveGlobal, qResolveShared:
					if len(events) == 0 {
						continue
					}
					e := events[op.G%len(events)]
					if op.G == 63 {
						e = events[len(events)-1] // the event coalesced last
					} else if op.G == 62 && len(events) >= 2 {
						e = events[len(events)-2]
					}
					pan := ""
					func() {
						defer func() {
							if r := recover(); r != nil {
								pan = fmt.Sprint(r)
							}
						}()
						switch op.K {
						case qResolveFresh:
							aucoalesce.ResolveIDsFromCaches(e.ev, aucoalesce.NewUserCache(time.Minute), aucoalesce.NewGroupCache(time.Minute))
						case qResolveGlobal:
							aucoalesce.ResolveIDs(e.ev)
						default:
							aucoalesce.ResolveIDsFromCaches(e.ev, users, grps)
						}
					}()
					if pan != "" {
						viol("panic", "ResolveIDs", "ID resolution panicked: "+pan)
						continue
					}
					hardG := p.Hard && op.K == qResolveGlobal
					if p.Hard && !hardG && e.globalSnap != "" {
						// resolved with the injected names before; names that another cache does not
						// know are left in place by design (only a non-empty answer replaces a name)
					} else if bad := checkNames(e.ev, hardG); bad != "" {
						viol("resolved-name-wrong", qopNames[op.K], fmt.Sprintf("%s on an event of group %d (task %d op %d): %s", qopNames[op.K], e.g, ti, oi, bad))
					}
					if advanced {
						h.Rec(evQOp, int64(oi), -2, 0, 0, "")
					}
					got := canonEvent(e.ev, e.err)
					if hardG {
						// the reference (fresh caches) does not know the injected names: the
						// event is compared with its own earlier resolution against these caches
						if e.globalSnap != "" && got != e.globalSnap {
							viol("resolve-not-repeatable", qopNames[op.K], fmt.Sprintf("%s on an event of group %d (task %d op %d) gave\n  %s\nthe same call on the same event gave earlier\n  %s", qopNames[op.K], e.g, ti, oi, got, e.globalSnap))
						}
						e.globalSnap = got
					} else if p.Hard && e.globalSnap != "" {
						// resolved with the injected names before: other caches answer differently, by design
					} else if lazy {
						h.Rec(evQGot, int64(e.g), int64(oi), 1, 0, got)
					} else if got != groups[e.g].refRes {
						viol("resolve-outcome", qopNames[op.K], fmt.Sprintf("%s on an event of group %d (task %d op %d, clock advanced before: %v) gave\n  %s\nresolving the same event in isolation gives\n  %s", qopNames[op.K], e.g, ti, oi, advanced, got, groups[e.g].refRes))
					}
					e.snapshot = got
					e.resolved = true
				case qAdvance:
					t.Sleep(time.Duration(op.D))
					advanced = true
				case qBurst:
					if op.G > 300 {
						h.Rec(evQOp, int64(oi), -4, 0, 0, "") // a long history
					}
					op.G = core.LongCap(op.G, 600)
					if op.D == 1 {
						// the same compound group (SYSCALL, paths, hex-encoded arguments, a unix socket
						// address) coalesced over and over: what a long-running process has behind it
						lines := []struct {
							t uint16
							s string
						}{{tSYSCALL, `arch=c000003e syscall=59 success=yes exit=0 items=2 ppid=1 pid=2 auid=0 uid=0 gid=0 euid=0 suid=0 fsuid=0 egid=0 sgid=0 fsgid=0 tty=pts0 ses=1 comm="x" exe="/x"`},
							{tEXECVE, `argc=3 a0=2F7573722F62696E2F707974686F6E33 a1=2D63 a2=7072696E7428223132333435363738393031323334353637383930313233343536373839302229`},
							{tCWD, `cwd="/root"`}, {tPATH, `item=0 name="/usr/bin/python3" inode=1 dev=fd:00 mode=0100755 ouid=0 ogid=0 rdev=00:00 nametype=NORMAL`},
							{tPATH, `item=1 name=2F6C696236342F6C642D6C696E75782E736F2E32 inode=2 dev=fd:00 mode=0100755 ouid=0 ogid=0 rdev=00:00 nametype=NORMAL`},
							{tSOCKADDR, `saddr=01002F72756E2F6E7363642F736F636B657400`}}
						var ms []*auparse.AuditMessage
						for j := 0; j < op.G; j++ {
							if j%64 == 0 {
								ms = ms[:0:0]
								for _, l := range lines {
									if m, perr := auparse.Parse(auparse.AuditMessageType(l.t), fmt.Sprintf("audit(1490137971.000:%d): %s", 800000+j, l.s)); perr == nil {
										ms = append(ms, m)
									}
								}
							}
							if _, _, pan := safeCoalesce(ms); pan != "" {
								viol("panic", "CoalesceMessages", fmt.Sprintf("CoalesceMessages panicked on its call number %d of a long series on one compound group: %s", j+1, pan))
								break
							}
						}
						h.Rec(evQOp, int64(oi), -3, int64(op.G), 0, "")
						continue
					}
					for j := 0; j < op.G; j++ {
						b := 20000 + ti*100000 + oi*3000 + (j%300)*10 // (beyond 300 events the ids repeat: what is measured then is the number of calls)
						line := fmt.Sprintf(`audit(1490137971.000:%d): arch=c000003e syscall=2 success=yes exit=0 items=0 ppid=1 pid=2 auid=%d uid=%d gid=%d euid=%d suid=%d fsuid=%d egid=%d sgid=%d fsgid=%d tty=pts0 ses=1 comm="x" exe="/x"`,
							900000+j, b, b+1, b+2, b+3, b+4, b+5, b+6, b+7, b+8)
						m, perr := auparse.Parse(tSYSCALL, line)
						if perr != nil {
							continue
						}
						if ev, _, pan := safeCoalesce([]*auparse.AuditMessage{m}); pan == "" && ev != nil {
							func() {
								defer func() { recover() }()
								aucoalesce.ResolveIDs(ev)
							}()
						}
					}
					h.Rec(evQOp, int64(oi), -3, int64(op.G), 0, "")
				case qTouchData:
					if len(own) == 0 {
						continue
					}
					g := groups[own[op.G%len(own)]]
					g.setTouched()
				}
				checkAll(oi)
			}
		})
	}
	setInnerYields(p.Inner)
	setActiveSched(sc)
	verdict := sc.Run()
	setActiveSched(nil)
	setInnerYields(false)
	res.Verdict = verdict
	res.SchedHash = sc.SchedHash
	res.Steps = sc.Steps
	res.SimNs = int64(time.Since(start))
	res.Faults[0] += sc.ClockJumps
	res.Probes[qpLockBlocked] += sc.LockBlocks
	evs := h.Events()
	if lazy && verdict == core.VerdictOK {
		for gi := range groups {
			if !computeRefs(gi) {
				break
			}
		}
		for _, e := range evs {
			if e.K != evQGot {
				continue
			}
			g := groups[e.A]
			want, what := g.refEv, "coalesce-not-repeatable"
			if e.C == 1 {
				want, what = g.refRes, "resolve-outcome"
			}
			if e.S != want {
				res.Add("C15", what, "first-run", fmt.Sprintf("group %d, op %d of task %d in the first run of the process returned\n  %s\nthe same lines handled in isolation afterwards give\n  %s", e.A, e.B, e.Task, e.S, want))
				break
			}
		}
		for gi, g := range groups {
			if !g.isTouched() {
				continue
			}
			for mi, m := range g.msgs {
				if mi < len(g.twin) && canonMsg(m) != g.twin[mi] {
					res.Add("C15", "input-changed", "message", fmt.Sprintf("after the first run of the process message %d of group %d reports\n  %s\na pristine parse of the same line reports\n  %s", mi, gi, canonMsg(m), g.twin[mi]))
					break
				}
			}
		}
		res.Probes[qpLazyFirstRun]++
	}
	seenCoalesce := map[[2]int]int{}
	nops := 0
	for _, e := range evs {
		switch e.K {
		case evQViol:
			parts := strings.SplitN(e.S, "\x00", 3)
			dup := false
			for _, v := range res.Violations {
				if v.Kind == parts[0] && v.Class == parts[1] {
					dup = true
				}
			}
			if !dup {
				res.Add("C15", parts[0], parts[1], parts[2])
			}
		case evQOp:
			if e.B == -1 {
				res.Probes[qpFirstDataInsideCoalesce]++
				continue
			}
			if e.B == -2 {
				res.Probes[qpResolveAfterExpiry]++
				continue
			}
			if e.B == -3 {
				res.Probes[qpBurst]++
				continue
			}
			if e.B == -4 {
				res.Long = true
				continue
			}
			nops++
			if e.B == qCoalesce {
				k := [2]int{int(e.Task), int(e.C)}
				seenCoalesce[k]++
				if seenCoalesce[k] == 2 {
					res.Probes[qpRepeatCoalesce]++
					res.Faults[1]++
				}
			}
			if trace {
				res.Trace = append(res.Trace, fmt.Sprintf("step %d task %d: op %d %s g=%d t=%s", e.Step, e.Task, e.A, qopNames[e.B], e.C, time.Duration(e.D)))
			}
		}
	}
	if trace {
		for gi, recs := range p.Groups {
			for _, r := range recs {
				typ, line := r.line(p.Seq + uint32(gi))
				res.Trace = append(res.Trace, fmt.Sprintf("group %d: type=%d %s", gi, typ, line))
			}
		}
	}
	res.TraceHash = h.Hash64()
	switch verdict {
	case core.VerdictDeadlock:
		core.AbandonDeadlock(core.Violation{Property: "C15", Kind: "deadlock", Class: "lock", Detail: "every unfinished task is blocked on a lock: " + sc.Describe()}, res.Trace)
	case core.VerdictStuck:
		core.AbandonInternal("simulator stuck: " + sc.Describe())
	case core.VerdictStepCap:
		core.AbandonDeadlock(core.Violation{Property: "C15", Kind: "no-termination", Class: "steps", Detail: "step cap reached: " + sc.Describe()}, res.Trace)
	}
	for _, t := range sc.Tasks {
		if t.Panic != "" {
			res.Add("C15", "panic", "task", "task "+t.Name+" panicked: "+t.Panic)
		}
	}
	res.Ops = nops
	res.Nontrivial = nops >= 2 && len(p.Groups) >= 1
	return res
}
