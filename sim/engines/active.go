package engines

import "verifsim/core"

var activeSched *core.Sched

//go:norace
func setActiveSched(s *core.Sched) { activeSched = s }

//go:norace
func getActiveSched() *core.Sched { return activeSched }

var innerYields bool

//go:norace
func setInnerYields(b bool) { innerYields = b }

//go:norace
func getInnerYields() bool { return innerYields }
