package engines

import "github.com/elastic/go-libaudit/v2/auparse"

import "verifsim/core"

var activeSched *core.Sched

//go:norace
func setActiveSched(s *core.Sched) { activeSched = s }

//go:norace
func getActiveSched() *core.Sched { return activeSched }

var innerYields bool

//go:norace
func setInnerYields(b bool) { innerYields = b }

//go:norace
func getInnerYields() bool { return innerYields }

var autoDensity, autoSalt uint32

//go:norace
func setAuto(d, salt uint32) { autoDensity, autoSalt = d, salt }

//go:norace
func getAuto() (uint32, uint32) { return autoDensity, autoSalt }

//go:norace
func setMsgIDs(m map[*auparse.AuditMessage]int) { msgIDs = m }
