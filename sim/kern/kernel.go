// Package kern is SimKernel: a small executable reference model of the
// kernel side of the audit netlink conversation, written from the Linux UAPI
// (linux/netlink.h, linux/audit.h). It carries its own numeric constants and
// byte offsets and never imports anything from the library under test.
package kern

import "encoding/binary"

// linux/netlink.h
const (
	NlmsgHdrLen = 16
	NlmsgError  = 2
	NlmsgDone   = 3
	FRequest    = 0x1
	FMulti      = 0x2
	FAck        = 0x4
)

// linux/audit.h
const (
	AuditGet       = 1000
	AuditSet       = 1001
	AuditAddRule   = 1011
	AuditDelRule   = 1012
	AuditListRules = 1013
)

// struct audit_status word indexes (offset = 4*index).
const (
	WMask = iota
	WEnabled
	WFailure
	WPid
	WRateLimit
	WBacklogLimit
	WLost
	WBacklog
	WFeatureBitmap
	WBacklogWaitTime
	WBacklogWaitTimeActual
	NWords
)

// AUDIT_STATUS_* mask bits.
const (
	MaskEnabled         = 0x0001
	MaskFailure         = 0x0002
	MaskPid             = 0x0004
	MaskRateLimit       = 0x0008
	MaskBacklogLimit    = 0x0010
	MaskBacklogWaitTime = 0x0020
	MaskLost            = 0x0040
)

// AUDIT_FEATURE_BITMAP_*
const (
	FeatBacklogLimit    = 0x01
	FeatBacklogWaitTime = 0x02
	FeatExecutablePath  = 0x04
	FeatExcludeExtend   = 0x08
	FeatSessionIDFilter = 0x10
	FeatLostReset       = 0x20
)

// errno values used semantically
const (
	EPERM  = 1
	ENOENT = 2
	EINTR  = 4
	EAGAIN = 11
	EEXIST = 17
	EINVAL = 22
)

// StatusSize is sizeof(struct audit_status) in current kernels.
const StatusSize = 4 * NWords

var le = binary.LittleEndian

// Datagram kinds
const (
	DAck = iota
	DData
	DDone
	DUnsolicited
	DStale
	DCustom
)

// Datagram is one message in the client socket's receive queue.
type Datagram struct {
	Bytes      []byte
	FromPid    uint32 // netlink port id of the sender (0 = kernel)
	Groups     uint32 // multicast group mask of the source address
	NonNetlink bool   // source address is not AF_NETLINK
	Req        int    // ledger index of the request it answers (-1 none)
	Kind       int
	AvailAt    int64 // virtual ns: not receivable before
	Consumed   bool
	ConsumedBy int  // receive ordinal
	Stray      bool // a sequence-0 NLMSG_ERROR that quotes the request in flight (no audit record, no reply)
	Unexcused  bool // left unread by a call that had no reason to leave it (harness bookkeeping)
}

// Request is one ledger entry: everything the kernel saw and answered.
type Request struct {
	Idx         int
	Wire        []byte
	Len         uint32
	Type, Flags uint16
	Seq, Pid    uint32
	Payload     []byte
	Verdict     int  // errno in the ACK (0 = success)
	DataFirst   bool // the reply was queued ahead of the ACK
	AckMistyped bool // the refusal came with a netlink type other than NLMSG_ERROR
	Injected    bool
	Applied     bool
	Replies     []*Datagram
	Malformed   string
	StatusSent  []byte   // GET: the audit_status bytes of the reply
	RulesSent   [][]byte // LIST_RULES: the rules sent, in order
	StaleAhead  bool
	SentAt      int64
}

// ReqFault is the fault script attached to the n-th request.
type ReqFault struct {
	Errno       int    `json:"errno,omitempty"`        // injected verdict (request not applied)
	UnsolBefore int    `json:"unsol_before,omitempty"` // unsolicited seq-0 records before the ACK
	UnsolAfter  int    `json:"unsol_after,omitempty"`  // between ACK and data
	UnsolMid    int    `json:"unsol_mid,omitempty"`    // between data parts
	Stale       bool   `json:"stale,omitempty"`        // ACK 0 for a foreign non-zero sequence ahead of the real reply
	DelayNs     int64  `json:"delay_ns,omitempty"`     // replies become receivable only after this long
	DataTrunc   int    `json:"data_trunc,omitempty"`   // GET reply payload cut to this many bytes (-1 = no cut) ; value+1 stored, 0 = none
	DataPad     int    `json:"data_pad,omitempty"`     // GET reply payload extended by this many trailing bytes
	AckShort    int    `json:"ack_short,omitempty"`    // ACK datagram cut to this many bytes (+1, 0 = none)
	SpoofLen    int    `json:"spoof_len,omitempty"`    // size of the forged datagram (0: 36, an ACK's size; else 16..96)
	SpoofMid    bool   `json:"spoof_mid,omitempty"`    // the forged datagram sits between the ACK and the data instead of ahead of the ACK
	Spoof       int    `json:"spoof,omitempty"`        // 1: a datagram from a non-kernel port id ahead; 2: non-netlink sockaddr ahead
	AckType     uint16 `json:"ack_type,omitempty"`     // the reply that should be the ACK of a refused request carries this netlink type instead of NLMSG_ERROR (its payload is intact)
	DataFirst   bool   `json:"data_first,omitempty"`   // GET: the reply (queued by a kernel thread) overtakes the ACK; UnsolMid records sit between the two
}

// Kernel is the simulated audit subsystem with one client socket.
type Kernel struct {
	Status    [NWords]uint32
	Rules     [][]byte
	ReplySize int // bytes of audit_status this kernel version sends (32..)
	Queue     []*Datagram
	qhead     int // every datagram before this index is consumed
	Ledger    []*Request
	Faults    []ReqFault
	Now       func() int64
	Closes    int
	// ExemptSeq0 is set when the run fast-forwards the sequence counter to the
	// uint32 wrap (see Sendto). Without it a client never sends sequence 0.
	ExemptSeq0 bool
	recvOrd    int
	unsolSeq   int
	// statistics (faults fired)
	FiredErrno, FiredUnsol, FiredStale, FiredDelay, FiredTrunc, FiredSpoof, FiredReorder, FiredBigAck int
}

func New(replySize int, now func() int64) *Kernel {
	k := &Kernel{ReplySize: replySize, Now: now}
	k.Status[WEnabled] = 1
	k.Status[WBacklogLimit] = 64
	k.Status[WBacklogWaitTime] = 60000
	k.Status[WFeatureBitmap] = 0x7f
	return k
}

func hdr(b []byte, length uint32, typ, flags uint16, seq, pid uint32) {
	le.PutUint32(b[0:], length)
	le.PutUint16(b[4:], typ)
	le.PutUint16(b[6:], flags)
	le.PutUint32(b[8:], seq)
	le.PutUint32(b[12:], pid)
}

func (k *Kernel) enqueue(d *Datagram) *Datagram {
	k.Queue = append(k.Queue, d)
	return d
}

func (k *Kernel) ack(r *Request, errno int, avail int64) *Datagram {
	// struct nlmsgerr: int error; struct nlmsghdr msg. netlink_ack echoes only
	// the request's header on success and the whole request when it reports an
	// error (the reader's buffer cuts what does not fit).
	echo := NlmsgHdrLen
	if errno != 0 && len(r.Wire) > echo {
		echo = len(r.Wire)
	}
	b := make([]byte, NlmsgHdrLen+4+echo)
	hdr(b, uint32(len(b)), NlmsgError, 0, r.Seq, r.Pid)
	le.PutUint32(b[16:], uint32(int32(-errno)))
	if len(r.Wire) >= NlmsgHdrLen {
		copy(b[20:], r.Wire[:echo])
	}
	if len(b) >= 8900 {
		k.FiredBigAck++
	}
	d := &Datagram{Bytes: b, Req: r.Idx, Kind: DAck, AvailAt: avail}
	r.Replies = append(r.Replies, d)
	return k.enqueue(d)
}

func (k *Kernel) data(r *Request, typ uint16, flags uint16, payload []byte, kind int, avail int64) *Datagram {
	b := make([]byte, NlmsgHdrLen+len(payload))
	hdr(b, uint32(len(b)), typ, flags, r.Seq, r.Pid)
	copy(b[NlmsgHdrLen:], payload)
	d := &Datagram{Bytes: b, Req: r.Idx, Kind: kind, AvailAt: avail}
	r.Replies = append(r.Replies, d)
	return k.enqueue(d)
}

// Unsolicited enqueues n audit records (sequence 0, mostly types 1100..1399), as the
// kernel does for the registered audit daemon at any moment.
// StrayErrno is the errno carried by the stray sequence-0 NLMSG_ERROR datagrams.
const StrayErrno = 3999

func (k *Kernel) Unsolicited(n int, avail int64) {
	for i := 0; i < n; i++ {
		k.unsolSeq++
		if k.unsolSeq%8 == 5 && len(k.Ledger) > 0 {
			// a sequence-0 datagram that is no audit record at all: an NLMSG_ERROR carrying
			// errno StrayErrno and quoting the header of the request in flight. It is not a
			// reply (sequence 0) and not an audit event either: a call may skip it or give
			// up on it, it must not take its errno for the kernel's verdict.
			if last := k.Ledger[len(k.Ledger)-1]; last.Seq != 0 && len(last.Wire) >= NlmsgHdrLen {
				b := make([]byte, NlmsgHdrLen+4+NlmsgHdrLen)
				hdr(b, uint32(len(b)), NlmsgError, 0, 0, 0)
				le.PutUint32(b[NlmsgHdrLen:], uint32(0x100000000-StrayErrno))
				copy(b[NlmsgHdrLen+4:], last.Wire[:NlmsgHdrLen])
				k.enqueue(&Datagram{Bytes: b, Req: -1, Kind: DUnsolicited, Stray: true, AvailAt: avail})
				k.FiredUnsol++
				continue
			}
		}
		body := []byte("audit(1500000000.000:" + itoa(k.unsolSeq) + "): unsolicited=" + itoa(k.unsolSeq))
		b := make([]byte, NlmsgHdrLen+len(body))
		typ := uint16(1100 + (k.unsolSeq*37)%300)
		if k.unsolSeq%4 == 3 {
			// records outside the 1100..1399 block: AUDIT_USER / AUDIT_LOGIN sit in the
			// 1000..1099 range next to the commands, LSM / anomaly / integrity / crypto records above
			typ = []uint16{1006, 1005, 1400, 1700, 1800, 2100, 2404, 2999}[(k.unsolSeq/4)%8]
		}
		hdr(b, uint32(len(b)), typ, 0, 0, 0)
		copy(b[NlmsgHdrLen:], body)
		k.enqueue(&Datagram{Bytes: b, Req: -1, Kind: DUnsolicited, AvailAt: avail})
		k.FiredUnsol++
	}
}

func itoa(n int) string {
	if n == 0 {
		return "0"
	}
	var b [20]byte
	i := len(b)
	for n > 0 {
		i--
		b[i] = byte('0' + n%10)
		n /= 10
	}
	return string(b[i:])
}

// StatusBytes lays out the current status in wire format (all 11 words).
func (k *Kernel) StatusBytes() []byte {
	b := make([]byte, StatusSize)
	for i, w := range k.Status {
		le.PutUint32(b[4*i:], w)
	}
	return b
}

// Sendto is the kernel's side of sendto(2) on the client socket. The bytes
// are decoded at fixed UAPI offsets. dstPid is the destination port id of the
// sockaddr (0 = kernel). It returns an errno for the sendto call itself.
func (k *Kernel) Sendto(wire []byte, dstPid uint32) int {
	now := k.Now()
	r := &Request{Idx: len(k.Ledger), Wire: append([]byte(nil), wire...), SentAt: now}
	k.Ledger = append(k.Ledger, r)
	var f ReqFault
	if r.Idx < len(k.Faults) {
		f = k.Faults[r.Idx]
	}
	if dstPid != 0 {
		r.Malformed = "destination is not the kernel"
		return 0
	}
	if len(wire) < NlmsgHdrLen {
		r.Malformed = "shorter than a netlink header"
		return 0
	}
	r.Len = le.Uint32(wire[0:])
	r.Type = le.Uint16(wire[4:])
	r.Flags = le.Uint16(wire[6:])
	r.Seq = le.Uint32(wire[8:])
	r.Pid = le.Uint32(wire[12:])
	if int(r.Len) != len(wire) {
		r.Malformed = "nlmsg_len does not match datagram length"
		// the kernel drops messages whose length field exceeds the skb
		if int(r.Len) > len(wire) || r.Len < NlmsgHdrLen {
			return 0
		}
	}
	r.Payload = r.Wire[NlmsgHdrLen:r.Len] // the kernel's own copy: sendto(2) copies the datagram before it returns
	if r.Flags&FRequest == 0 {
		r.Malformed = "NLM_F_REQUEST not set"
		return 0 // netlink_rcv_skb ignores non-requests
	}
	if r.Seq == 0 && k.ExemptSeq0 {
		// The request whose sequence number is 0 (reached after 2^32 requests on
		// one client, or by fast-forwarding the counter) cannot be told from an
		// audit record by the reader, which has to treat sequence 0 as
		// "unsolicited". That request is exempt from unsolicited-record faults;
		// see DESIGN.md (limits).
		f.UnsolBefore, f.UnsolAfter, f.UnsolMid = 0, 0, 0
		for _, d := range k.Queue {
			if !d.Consumed && d.Kind == DUnsolicited {
				d.Consumed = true // nor are earlier audit records still waiting in the socket
			}
		}
	}
	avail := now + f.DelayNs
	if f.DelayNs > 0 {
		k.FiredDelay++
	}
	spoof := func() {
		// a forged "success" ACK for this very request; with another size it is
		// filled with bytes that are neither zero nor the poison pattern
		n := NlmsgHdrLen + 4 + NlmsgHdrLen
		if f.SpoofLen >= NlmsgHdrLen {
			n = f.SpoofLen
		}
		b := make([]byte, n)
		for i := NlmsgHdrLen; i < n && f.SpoofLen != 0; i++ {
			b[i] = byte(0x51 + i)
		}
		hdr(b, uint32(len(b)), NlmsgError, 0, r.Seq, r.Pid)
		if n >= NlmsgHdrLen+4 {
			le.PutUint32(b[NlmsgHdrLen:], 0)
		}
		if f.Spoof == 1 {
			k.enqueue(&Datagram{Bytes: b, FromPid: 4242, Req: -1, Kind: DCustom, AvailAt: avail})
		} else {
			k.enqueue(&Datagram{Bytes: b, NonNetlink: true, Req: -1, Kind: DCustom, AvailAt: avail})
		}
		k.FiredSpoof++
	}
	if f.Spoof != 0 && !f.SpoofMid {
		spoof()
	}
	k.Unsolicited(f.UnsolBefore, avail)
	if f.Stale {
		// a successful ACK that belongs to some other (foreign, non-zero) sequence
		b := make([]byte, NlmsgHdrLen+4+NlmsgHdrLen)
		foreign := r.Seq + 1000
		if foreign == 0 {
			foreign = 7
		}
		hdr(b, uint32(len(b)), NlmsgError, 0, foreign, r.Pid)
		k.enqueue(&Datagram{Bytes: b, Req: -1, Kind: DStale, AvailAt: avail})
		r.StaleAhead = true
		k.FiredStale++
	}
	// verdict
	errno := 0
	if f.Errno != 0 {
		errno = f.Errno
		r.Injected = true
		k.FiredErrno++
	} else {
		errno = k.semantic(r)
	}
	r.Verdict = errno
	wantAck := r.Flags&FAck != 0 || errno != 0
	var ackD *Datagram
	if wantAck {
		ackD = k.ack(r, errno, avail)
		if f.AckType != 0 && errno != 0 {
			le.PutUint16(ackD.Bytes[4:], f.AckType)
			r.AckMistyped = true
			k.FiredTrunc++
		}
		if f.AckShort > 0 {
			n := f.AckShort - 1
			if n < len(ackD.Bytes) {
				ackD.Bytes = ackD.Bytes[:n]
				if n >= NlmsgHdrLen+4 {
					// the errno is there, the echoed request is not (or not all of it): a well-formed short ACK
					le.PutUint32(ackD.Bytes[0:], uint32(n))
				}
				k.FiredTrunc++
			}
		}
	}
	if f.Spoof != 0 && f.SpoofMid {
		spoof()
	}
	k.Unsolicited(f.UnsolAfter, avail)
	if errno != 0 {
		return 0
	}
	r.Applied = true
	switch r.Type {
	case AuditGet:
		st := k.StatusBytes()
		n := k.ReplySize
		payload := make([]byte, n)
		copy(payload, st)
		for i := StatusSize; i < n; i++ {
			payload[i] = byte(0xA0 + i) // fields of a future kernel
		}
		if f.DataTrunc > 0 {
			cut := f.DataTrunc - 1
			if cut < len(payload) {
				payload = payload[:cut]
				k.FiredTrunc++
			}
		}
		for i := 0; i < f.DataPad; i++ {
			payload = append(payload, byte(0xC0+i))
		}
		r.StatusSent = append([]byte(nil), payload...)
		k.data(r, AuditGet, 0, payload, DData, avail)
		if f.DataFirst && ackD != nil {
			// the reply is sent by a kernel thread of its own and may reach the
			// socket before the ACK of the request context
			k.Unsolicited(f.UnsolMid, avail)
			for i, d := range k.Queue {
				if d == ackD {
					k.Queue = append(append(k.Queue[:i:i], k.Queue[i+1:]...), ackD)
					break
				}
			}
			r.DataFirst = true
			k.FiredReorder++
		}
	case AuditListRules:
		for _, rule := range k.Rules {
			r.RulesSent = append(r.RulesSent, append([]byte(nil), rule...))
			k.data(r, AuditListRules, FMulti, rule, DData, avail)
			k.Unsolicited(f.UnsolMid, avail)
		}
		k.data(r, NlmsgDone, FMulti, []byte{0, 0, 0, 0}, DDone, avail)
	}
	return 0
}

// semantic computes the kernel's own verdict and applies the request.
func (k *Kernel) semantic(r *Request) int {
	immutable := k.Status[WEnabled] == 2
	switch r.Type {
	case AuditGet:
		return 0
	case AuditSet:
		if len(r.Payload) < 4 {
			return EINVAL
		}
		var w [NWords]uint32
		for i := 0; i < NWords && 4*i+4 <= len(r.Payload); i++ {
			w[i] = le.Uint32(r.Payload[4*i:])
		}
		m := w[WMask]
		if m&MaskEnabled != 0 {
			if w[WEnabled] > 2 {
				return EINVAL
			}
			if immutable {
				return EPERM
			}
		}
		if m&MaskFailure != 0 && w[WFailure] > 2 {
			return EINVAL
		}
		if m&MaskBacklogWaitTime != 0 && w[WBacklogWaitTime] > 10*60000 {
			return EINVAL
		}
		if m&MaskEnabled != 0 {
			k.Status[WEnabled] = w[WEnabled]
		}
		if m&MaskFailure != 0 {
			k.Status[WFailure] = w[WFailure]
		}
		if m&MaskPid != 0 {
			k.Status[WPid] = w[WPid]
		}
		if m&MaskRateLimit != 0 {
			k.Status[WRateLimit] = w[WRateLimit]
		}
		if m&MaskBacklogLimit != 0 {
			k.Status[WBacklogLimit] = w[WBacklogLimit]
		}
		if m&MaskBacklogWaitTime != 0 {
			k.Status[WBacklogWaitTime] = w[WBacklogWaitTime]
		}
		if m&MaskLost != 0 {
			k.Status[WLost] = 0
		}
		return 0
	case AuditAddRule:
		if immutable {
			return EPERM
		}
		if len(r.Payload) == 0 {
			return EINVAL
		}
		for _, x := range k.Rules {
			if string(x) == string(r.Payload) {
				return EEXIST
			}
		}
		k.Rules = append(k.Rules, append([]byte(nil), r.Payload...))
		return 0
	case AuditDelRule:
		if immutable {
			return EPERM
		}
		for i, x := range k.Rules {
			if string(x) == string(r.Payload) {
				k.Rules = append(k.Rules[:i:i], k.Rules[i+1:]...)
				return 0
			}
		}
		return ENOENT
	case AuditListRules:
		return 0
	}
	return EINVAL
}

// Recv is the kernel's side of a non-blocking recvfrom(2): the next
// receivable datagram, or nil (EAGAIN) when none is available yet.
func (k *Kernel) Recv() *Datagram {
	now := k.Now()
	if k.qhead > len(k.Queue) {
		k.qhead = 0
	}
	for k.qhead < len(k.Queue) && k.Queue[k.qhead].Consumed {
		k.qhead++ // (consumed datagrams stay in the queue for the oracles; long runs do not rescan them)
	}
	for _, d := range k.Queue[k.qhead:] {
		if d.Consumed {
			continue
		}
		if d.AvailAt > now {
			return nil // datagrams are delivered in order
		}
		d.Consumed = true
		d.ConsumedBy = k.recvOrd
		k.recvOrd++
		return d
	}
	return nil
}

// Forget drops the ledger and the (consumed) queue: the conversation so far is
// over and judged, what follows is numbered from zero again. The kernel's own
// state (status, rules) stays.
func (k *Kernel) Forget() {
	k.Ledger = k.Ledger[:0]
	k.Queue = k.Queue[:0]
	k.qhead = 0
}

// Pending returns the number of datagrams not yet consumed.
func (k *Kernel) Pending() int {
	n := 0
	for _, d := range k.Queue {
		if !d.Consumed {
			n++
		}
	}
	return n
}

// Inject enqueues an arbitrary datagram (for transport scenarios).
func (k *Kernel) Inject(b []byte, fromPid uint32, nonNetlink bool) *Datagram {
	return k.enqueue(&Datagram{Bytes: append([]byte(nil), b...), FromPid: fromPid, NonNetlink: nonNetlink, Req: -1, Kind: DCustom, AvailAt: 0})
}

func (k *Kernel) Close() { k.Closes++ }
