// Command instrument copies a go-libaudit source tree and inserts a
// scheduling point, verifYield("auto:<file>:<line>"), before every statement
// of the root package (netlink client, audit client, reassembler). Under the
// "verif" build tag verifYield calls the simulator's hook; the simulator then
// decides per run which of these points are honoured, so interleavings are
// explored at statement granularity instead of only at the hand-placed
// hooks. Without a simulator attached the calls do nothing.
//
// usage: instrument <src-repo> <dst-dir>
package main

import (
	"bytes"
	"fmt"
	"go/ast"
	"go/format"
	"go/parser"
	"go/token"
	"io"
	"io/fs"
	"os"
	"path/filepath"
	"strconv"
	"strings"
)

func main() {
	if len(os.Args) != 3 {
		fmt.Fprintln(os.Stderr, "usage: instrument <src-repo> <dst-dir>")
		os.Exit(2)
	}
	src, dst := os.Args[1], os.Args[2]
	if err := copyTree(src, dst); err != nil {
		fmt.Fprintln(os.Stderr, "copy:", err)
		os.Exit(1)
	}
	ents, err := os.ReadDir(dst)
	if err != nil {
		fmt.Fprintln(os.Stderr, err)
		os.Exit(1)
	}
	points := 0
	for _, e := range ents {
		n := e.Name()
		if e.IsDir() || !strings.HasSuffix(n, ".go") || strings.HasSuffix(n, "_test.go") || strings.HasPrefix(n, "verif_") || n == "doc.go" {
			continue
		}
		k, err := instrumentFile(filepath.Join(dst, n))
		if err != nil {
			fmt.Fprintf(os.Stderr, "instrument %s: %v\n", n, err)
			os.Exit(1)
		}
		points += k
	}
	fmt.Printf("instrumented %d statements\n", points)
}

func copyTree(src, dst string) error {
	return filepath.WalkDir(src, func(p string, d fs.DirEntry, err error) error {
		if err != nil {
			return err
		}
		rel, _ := filepath.Rel(src, p)
		if rel == ".git" || strings.HasPrefix(rel, ".git"+string(filepath.Separator)) {
			if d.IsDir() {
				return filepath.SkipDir
			}
			return nil
		}
		out := filepath.Join(dst, rel)
		if d.IsDir() {
			return os.MkdirAll(out, 0o755)
		}
		if !d.Type().IsRegular() {
			return nil
		}
		in, err := os.Open(p)
		if err != nil {
			return err
		}
		defer in.Close()
		o, err := os.Create(out)
		if err != nil {
			return err
		}
		defer o.Close()
		_, err = io.Copy(o, in)
		return err
	})
}

// functions that are pure helpers on local data (sorting comparisons):
// yielding inside them multiplies the number of points without adding
// interleavings of shared state.
var skipFuncs = map[string]bool{"Less": true, "Swap": true, "Len": true, "abs": true, "Sort": true, "verifYield": true, "verifSocket": true, "init": true}

func instrumentFile(path string) (int, error) {
	fset := token.NewFileSet()
	f, err := parser.ParseFile(fset, path, nil, parser.ParseComments)
	if err != nil {
		return 0, err
	}
	base := filepath.Base(path)
	n := 0
	locks := 0
	_ = locks
	var doBlock func(list []ast.Stmt) []ast.Stmt
	var doStmt func(s ast.Stmt)
	yield := func(pos token.Pos) ast.Stmt {
		n++
		line := fset.Position(pos).Line
		return &ast.ExprStmt{X: &ast.CallExpr{Fun: ast.NewIdent("verifYield"),
			Args: []ast.Expr{&ast.BasicLit{Kind: token.STRING, Value: strconv.Quote("auto:" + base + ":" + strconv.Itoa(line))}}}}
	}
	doBlock = func(list []ast.Stmt) []ast.Stmt {
		var out []ast.Stmt
		for _, s := range list {
			switch s.(type) {
			case *ast.DeclStmt, *ast.EmptyStmt:
				// nothing can be observed before a declaration
			default:
				out = append(out, yield(s.Pos()))
			}
			doStmt(s)
			// lock operations are bracketed with notifications so that the
			// simulator can gate a task before it would block for real
			if op, name, root, isDefer := lockOp(s); op != "" {
				locks++
				switch {
				case isDefer:
					// runs after the deferred unlock (LIFO)
					out = append(out, &ast.DeferStmt{Call: syncCall(op, name, root)}, s)
				case op == "lock" || op == "rlock":
					out = append(out, &ast.ExprStmt{X: syncCall(op, name, root)}, s)
				case op == "once":
					out = append(out, &ast.ExprStmt{X: syncCall("once", name, root)}, s, &ast.ExprStmt{X: syncCall("onced", name, root)})
				default: // unlock, runlock
					out = append(out, s, &ast.ExprStmt{X: syncCall(op, name, root)})
				}
				continue
			}
			out = append(out, s)
		}
		return out
	}
	doStmt = func(s ast.Stmt) {
		switch x := s.(type) {
		case *ast.BlockStmt:
			x.List = doBlock(x.List)
		case *ast.IfStmt:
			x.Body.List = doBlock(x.Body.List)
			if x.Else != nil {
				doStmt(x.Else)
			}
		case *ast.ForStmt:
			x.Body.List = doBlock(x.Body.List)
		case *ast.RangeStmt:
			x.Body.List = doBlock(x.Body.List)
		case *ast.SwitchStmt:
			for _, c := range x.Body.List {
				cc := c.(*ast.CaseClause)
				cc.Body = doBlock(cc.Body)
			}
		case *ast.TypeSwitchStmt:
			for _, c := range x.Body.List {
				cc := c.(*ast.CaseClause)
				cc.Body = doBlock(cc.Body)
			}
		case *ast.SelectStmt:
			for _, c := range x.Body.List {
				cc := c.(*ast.CommClause)
				cc.Body = doBlock(cc.Body)
			}
		case *ast.LabeledStmt:
			doStmt(x.Stmt)
		}
		// function literals inside the statement (e.g. the body of Once.Do)
		ast.Inspect(s, func(nd ast.Node) bool {
			if fl, ok := nd.(*ast.FuncLit); ok && fl.Body != nil {
				if !marked[fl] {
					marked[fl] = true
					fl.Body.List = doBlock(fl.Body.List)
				}
				return false
			}
			// nested statements are handled by the explicit recursion above
			if _, ok := nd.(ast.Stmt); ok && nd != s {
				return false
			}
			return true
		})
	}
	for _, d := range f.Decls {
		fd, ok := d.(*ast.FuncDecl)
		if !ok || fd.Body == nil || skipFuncs[fd.Name.Name] {
			continue
		}
		fd.Body.List = doBlock(fd.Body.List)
	}
	if n == 0 {
		return 0, nil
	}
	var buf bytes.Buffer
	if err := format.Node(&buf, fset, f); err != nil {
		return 0, err
	}
	return n, os.WriteFile(path, buf.Bytes(), 0o644)
}

var marked = map[*ast.FuncLit]bool{}

// lockOp recognises X.Lock(), X.RLock(), X.Unlock(), X.RUnlock(), defer
// X.Unlock(), defer X.RUnlock() and <once>.Do(f) statements. It returns the
// operation, the text of X and the leftmost identifier X is reached from.
func lockOp(s ast.Stmt) (op, name string, root *ast.Ident, isDefer bool) {
	var call *ast.CallExpr
	switch x := s.(type) {
	case *ast.ExprStmt:
		call, _ = x.X.(*ast.CallExpr)
	case *ast.DeferStmt:
		call = x.Call
		isDefer = true
	}
	if call == nil {
		return "", "", nil, false
	}
	sel, ok := call.Fun.(*ast.SelectorExpr)
	if !ok {
		return "", "", nil, false
	}
	switch sel.Sel.Name {
	case "Lock":
		op = "lock"
	case "RLock":
		op = "rlock"
	case "Unlock":
		op = "unlock"
	case "RUnlock":
		op = "runlock"
	case "Do":
		op = "once"
	default:
		return "", "", nil, false
	}
	if len(call.Args) != 0 && op != "once" {
		return "", "", nil, false
	}
	if isDefer && (op == "lock" || op == "rlock" || op == "once") {
		return "", "", nil, false
	}
	name = exprText(sel.X)
	if op == "once" && !strings.Contains(strings.ToLower(name), "once") {
		return "", "", nil, false
	}
	root = rootIdent(sel.X)
	if root == nil || name == "" {
		return "", "", nil, false
	}
	return op, name, root, isDefer
}

func rootIdent(e ast.Expr) *ast.Ident {
	for {
		switch x := e.(type) {
		case *ast.Ident:
			return x
		case *ast.SelectorExpr:
			e = x.X
		case *ast.ParenExpr:
			e = x.X
		case *ast.StarExpr:
			e = x.X
		default:
			return nil
		}
	}
}

func exprText(e ast.Expr) string {
	switch x := e.(type) {
	case *ast.Ident:
		return x.Name
	case *ast.SelectorExpr:
		if t := exprText(x.X); t != "" {
			return t + "." + x.Sel.Name
		}
	case *ast.ParenExpr:
		return exprText(x.X)
	case *ast.StarExpr:
		return exprText(x.X)
	}
	return ""
}

func syncCall(op, name string, root *ast.Ident) *ast.CallExpr {
	return &ast.CallExpr{Fun: ast.NewIdent("verifSync"), Args: []ast.Expr{
		&ast.BasicLit{Kind: token.STRING, Value: strconv.Quote(op)},
		&ast.BasicLit{Kind: token.STRING, Value: strconv.Quote(name)},
		ast.NewIdent(root.Name)}}
}
