#!/bin/bash
# benigncheck.sh <PROP> <N> "<checks to run>"  : apply a behaviour-preserving refactoring in its scratch worktree and run checks; all must exit 0.
P=$1; N=$2; CHECKS=$3
WT=/tmp/wt/$P; OUT=${BENIGNOUT:-/tmp/seeded_out3}/$P
export GOFLAGS=-mod=mod GOPROXY=off GOSUMDB=off
cd $WT && git checkout -q -- . && git clean -fdq && git checkout -q --detach $(git -C /repo rev-parse HEAD) && git apply $OUT/patch$N.diff || { echo "APPLY-FAILED $P $N"; exit 9; }
go build ./... && go build -tags verif ./... || { echo "BUILD-FAILED"; git checkout -q -- .; exit 9; }
for Q in $CHECKS; do
  ( cd /verif && VERIF_REPO=$WT VERIF_SECS_PER_WORKER=${SECS:-12} ./check $Q quick > $OUT/benign$N.$Q.log 2>&1; rc=$?; echo "$P refactor $N -> check $Q exit=$rc $(grep -h '^violation:\|^INCONCLUSIVE' $OUT/benign$N.$Q.log | head -2 | cut -c1-300)" )
done
cd $WT && git checkout -q -- . && git clean -fdq
