#!/bin/bash
# seedcheck.sh <PROP> <N> [demo-package-dir]
# Confirms a sub-agent's seeded change in its scratch worktree (compiles, suite passes, demo fails with / passes without),
# then runs the property's quick check against it in /repo and reverts.
set -u
P=$1; N=$2; PKG=${3:-.}
WT=/tmp/wt/$P; OUT=/tmp/seeded_out/$P
export GOFLAGS=-mod=mod GOPROXY=off GOSUMDB=off
cd $WT || exit 9
git checkout -q -- . ; git clean -fdq
git apply $OUT/patch$N.diff || { echo "APPLY-FAILED"; exit 9; }
go build ./... && go build -tags verif ./... || { echo "BUILD-FAILED"; git checkout -q -- .; exit 9; }
SUITE=$(go test -vet=off -count=1 ./... 2>&1 | grep -v "no test files" | grep -v "^ok" | head -5)
if [ -n "$SUITE" ]; then echo "SUITE-FIRST-TRY: $SUITE"; SUITE=$(go test -vet=off -count=1 ./... 2>&1 | grep -v "no test files" | grep -v "^ok" | head -5); fi
echo "suite-with-change: ${SUITE:-PASS}"
cp $OUT/demo${N}_test.go $WT/$PKG/zz_demo${N}_test.go
RACE=""; grep -qi "race" $OUT/notes$N.md 2>/dev/null && RACE="-race"
( cd $WT/$PKG && go test $RACE -vet=off -count=1 -run "$(grep -o 'func Test[A-Za-z0-9_]*' zz_demo${N}_test.go | sed 's/func //' | paste -sd'|')" . > /tmp/seeded_out/$P/demo$N.with.log 2>&1 ); echo "demo-with-change exit=$? (want !=0)"
git checkout -q -- .
( cd $WT/$PKG && go test $RACE -vet=off -count=1 -run "$(grep -o 'func Test[A-Za-z0-9_]*' zz_demo${N}_test.go | sed 's/func //' | paste -sd'|')" . > /tmp/seeded_out/$P/demo$N.without.log 2>&1 ); echo "demo-without-change exit=$? (want 0)"
rm -f $WT/$PKG/zz_demo${N}_test.go
git checkout -q -- . ; git clean -fdq
# now the check
cd /repo && [ -z "$(git status --porcelain)" ] || { echo "/repo dirty"; exit 9; }
git apply $OUT/patch$N.diff
cd /verif && ./check $P quick > /tmp/seeded_out/$P/check$N.log 2>&1; echo "check exit=$? $(grep -h '^violation:\|^VIOLATION' /tmp/seeded_out/$P/check$N.log | cut -c1-300 | head -3)"
git -C /repo checkout -q -- . ; git -C /repo clean -fdq
