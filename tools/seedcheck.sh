#!/bin/bash
# seedcheck.sh <PROP> <N> [demo-package-dir]   (env SEEDOUT: deliverables root, default /tmp/seeded_out)
# Confirms a sub-agent's seeded change in its scratch worktree (compiles, suite passes, demo fails with / passes without),
# then runs the property's quick check against the patched worktree (VERIF_REPO) and restores it. /repo is never touched here;
# `selftest.py mutants` later applies every kept patch to /repo itself.
set -u
P=$1; N=$2; PKG=${3:-.}
ROOTOUT=${SEEDOUT:-/tmp/seeded_out}
WT=/tmp/wt/$P; OUT=$ROOTOUT/$P
export GOFLAGS=-mod=mod GOPROXY=off GOSUMDB=off
cd $WT || exit 9
git checkout -q -- . ; git clean -fdq
git checkout -q --detach $(git -C /repo rev-parse HEAD)   # hook commits may have been added since the worktree was made
git apply $OUT/patch$N.diff || { echo "APPLY-FAILED"; exit 9; }
go build ./... && go build -tags verif ./... || { echo "BUILD-FAILED"; git checkout -q -- .; exit 9; }
SUITE=$(go test -vet=off -count=1 ./... 2>&1 | grep -v "no test files" | grep -v "^ok" | head -5)
if [ -n "$SUITE" ]; then SUITE=$(go test -vet=off -count=1 ./... 2>&1 | grep -v "no test files" | grep -v "^ok" | head -5); fi
if [ -n "$SUITE" ]; then SUITE=$(go test -vet=off -count=1 ./... 2>&1 | grep -v "no test files" | grep -v "^ok" | head -5); fi
echo "suite-with-change: ${SUITE:-PASS}"
cp $OUT/demo${N}_test.go $WT/$PKG/zz_demo${N}_test.go
RACE=""; grep -qi "race" $OUT/notes$N.md 2>/dev/null && RACE="-race"
grep -q "tags verif\|go:build verif" $OUT/demo${N}_test.go $OUT/notes$N.md 2>/dev/null && RACE="$RACE -tags verif"
TESTS="$(grep -o 'func Test[A-Za-z0-9_]*' $WT/$PKG/zz_demo${N}_test.go | sed 's/func //' | paste -sd'|')"
( cd $WT/$PKG && go test $RACE -vet=off -count=1 -run "$TESTS" . > $OUT/demo$N.with.log 2>&1 ); echo "demo-with-change exit=$? (want !=0)"
rm -f $WT/$PKG/zz_demo${N}_test.go
# the check, against the patched worktree
( cd /verif && VERIF_REPO=$WT ./check $P quick > $OUT/check$N.log 2>&1; echo "check exit=$? $(grep -h '^violation:\|^VIOLATION' $OUT/check$N.log | cut -c1-300 | head -3)" )
git checkout -q -- . ; git clean -fdq
cp $OUT/demo${N}_test.go $WT/$PKG/zz_demo${N}_test.go
( cd $WT/$PKG && go test $RACE -vet=off -count=1 -run "$TESTS" . > $OUT/demo$N.without.log 2>&1 ); echo "demo-without-change exit=$? (want 0)"
rm -f $WT/$PKG/zz_demo${N}_test.go
git checkout -q -- . ; git clean -fdq
