#!/usr/bin/env python3
"""Re-bases the patches under /verif/seeded/*/patch.diff, /verif/mutants/*.patch (and /tmp/seeded_out/*/patch*.diff when asked)
onto /repo's current HEAD with a 3-way apply. /repo must be clean."""
import glob, subprocess, sys
def sh(*a, **k):
    return subprocess.run(a, stdout=subprocess.PIPE, stderr=subprocess.STDOUT, text=True, **k)
assert sh("git", "-C", "/repo", "status", "--porcelain").stdout.strip() == "", "/repo dirty"
paths = sorted(glob.glob("/verif/seeded/*/patch.diff")) + sorted(glob.glob("/verif/mutants/*.patch"))
if "--tmp" in sys.argv:
    paths += sorted(glob.glob("/tmp/seeded_out/*/patch*.diff"))
for p in paths:
    if sh("git", "-C", "/repo", "apply", "--check", p).returncode == 0:
        continue
    r = sh("git", "-C", "/repo", "apply", "-3", p)
    conflicted = "with conflicts" in r.stdout or r.returncode != 0
    if conflicted:
        print("CONFLICT", p, r.stdout.strip()[:200])
    else:
        d = sh("git", "-C", "/repo", "diff", "HEAD").stdout
        open(p, "w").write(d)
        print("rebased", p)
    sh("git", "-C", "/repo", "reset", "-q", "--hard", "HEAD")
