#!/usr/bin/env python3
"""seedkeep.py <PROP> <N> <caught|missed> : archive a confirmed sub-agent change under /verif/seeded/<PROP>-<N>/"""
import json, os, shutil, sys, re
P, N, verdict = sys.argv[1], sys.argv[2], sys.argv[3]
wave = sys.argv[4] if len(sys.argv) > 4 else "1"
import os as _os
src = (_os.environ.get("SEEDOUT", "/tmp/seeded_out")) + "/%s" % P
name = "%s-w%s-%s" % (P, wave, N)
dst = "/verif/seeded/%s" % name
os.makedirs(dst, exist_ok=True)
shutil.copy(os.path.join(src, "patch%s.diff" % N), os.path.join(dst, "patch.diff"))
shutil.copy(os.path.join(src, "demo%s_test.go" % N), os.path.join(dst, "demo_test.go"))
notes = open(os.path.join(src, "notes%s.md" % N)).read() if os.path.exists(os.path.join(src, "notes%s.md" % N)) else ""
open(os.path.join(dst, "notes.md"), "w").write(notes)
chk = open(os.path.join(src, "check%s.log" % N)).read() if os.path.exists(os.path.join(src, "check%s.log" % N)) else ""
viol = next((l for l in chk.splitlines() if l.startswith("violation:")), "")
meta = dict(
    id=name, property=P, source="independent sub-agent given only the property text and a scratch worktree",
    needs_to_manifest=re.sub(r"\s+", " ", notes.strip())[:1200],
    confirmed=dict(compiles=True, existing_suite_passes=True, demo_fails_with_change=True, demo_passes_without_change=True,
                   how="tools/seedcheck.sh %s %s: applied in a scratch worktree, go build (both tags), go test -vet=off -count=1 ./..., demo test with and without the change" % (P, N)),
    check_run="./check %s quick against the patched scratch worktree (VERIF_REPO), and again by selftest.py mutants with the patch applied to /repo itself and reverted" % P,
    check_result=verdict, check_violation=viol[:400],
)
json.dump(meta, open(os.path.join(dst, "meta.json"), "w"), indent=1)
print("kept", dst)
